"""Thin, deterministic runner around TLC (tla2tools 1.8).

Everything a check needs from a TLC invocation is returned in a `TlcResult`:
state counts, per-action coverage, violated invariant / property name, the
counterexample trace as text, every `PrintT` value (parsed), and whether the
run was cut by the outer timeout.  Scratch (metadir, generated cfg) lives in a
private temporary directory that is removed when the run is over.
"""
import json
import os
import re
import shutil
import subprocess
import tempfile
import time

SPEC_DIR = os.path.join(os.path.dirname(os.path.dirname(os.path.abspath(__file__))), 'spec')
JAR = '/opt/veriftools/tla/tla2tools.jar:/opt/veriftools/tla/CommunityModules-deps.jar'


class TlcResult:
    def __init__(self):
        self.ok = False  # TLC finished and found no error
        self.timed_out = False
        self.violation = None  # name of violated invariant / property / 'deadlock' / 'assert'
        self.tlc_error = None  # first line of an error raised by TLC itself (not a property violation)
        self.error_text = ''
        self.generated = 0
        self.distinct = 0
        self.depth = 0
        self.coverage = {}  # action name -> (distinct, total)
        self.prints = []  # parsed PrintT values (python objects) or raw strings
        self.raw = ''
        self.wall = 0.0
        self.cmd = ''
        self.returncode = None

    def summary(self):
        return dict(
            ok=self.ok,
            violation=self.violation,
            generated=self.generated,
            distinct=self.distinct,
            depth=self.depth,
            wall_s=round(self.wall, 2),
            timed_out=self.timed_out,
        )


def write_cfg(path, spec=None, init=None, next_=None, constants=None, invariants=(), properties=(),
              constraints=(), action_constraints=(), view=None, postcondition=None, check_deadlock=None,
              symmetry=None, raw_extra=''):
    """Write a TLC configuration file.  `constants` maps names to literal TLA+ text."""
    lines = []
    if spec:
        lines.append(f'SPECIFICATION {spec}')
    else:
        if init:
            lines.append(f'INIT {init}')
        if next_:
            lines.append(f'NEXT {next_}')
    if constants:
        lines.append('CONSTANTS')
        for k, v in constants.items():
            if isinstance(v, tuple) and v[0] == '<-':
                lines.append(f'  {k} <- {v[1]}')
            else:
                lines.append(f'  {k} = {v}')
    for inv in invariants:
        lines.append(f'INVARIANT {inv}')
    for p in properties:
        lines.append(f'PROPERTY {p}')
    for c in constraints:
        lines.append(f'CONSTRAINT {c}')
    for c in action_constraints:
        lines.append(f'ACTION_CONSTRAINT {c}')
    if view:
        lines.append(f'VIEW {view}')
    if symmetry:
        lines.append(f'SYMMETRY {symmetry}')
    if postcondition:
        lines.append(f'POSTCONDITION {postcondition}')
    if check_deadlock is not None:
        lines.append(f'CHECK_DEADLOCK {"TRUE" if check_deadlock else "FALSE"}')
    if raw_extra:
        lines.append(raw_extra)
    with open(path, 'w') as f:
        f.write('\n'.join(lines) + '\n')


def tla_value(v):
    """Python value -> TLA+ literal text (ints, bools, strings, lists -> tuples, sets, dicts -> records)."""
    if isinstance(v, bool):
        return 'TRUE' if v else 'FALSE'
    if isinstance(v, int):
        return str(v)
    if isinstance(v, str):
        return '"' + v + '"'
    if isinstance(v, (list, tuple)):
        return '<<' + ', '.join(tla_value(x) for x in v) + '>>'
    if isinstance(v, (set, frozenset)):
        return '{' + ', '.join(tla_value(x) for x in sorted(v, key=repr)) + '}'
    if isinstance(v, dict):
        return '[' + ', '.join(f'{k} |-> {tla_value(x)}' for k, x in v.items()) + ']'
    raise TypeError(v)


_cov_re = re.compile(r'^<(\w+) line (\d+), col (\d+) to line (\d+), col (\d+) of module (\w+)>: (\d+):(\d+)')


def run_tlc(module, cfg_path, workers=8, timeout=600, simulate=None, depth=None, seed=None, coverage=False,
            env_extra=None, spec_dir=SPEC_DIR, extra_args=(), heap='4g', deque=False, keep_raw=True,
            dump_trace_dir=None, library=None):
    """Run TLC on `module`.tla (found in spec_dir) with configuration cfg_path."""
    res = TlcResult()
    scratch = tempfile.mkdtemp(prefix='verif_tlc_')
    try:
        os.makedirs(os.path.join(scratch, 'jtmp'), exist_ok=True)
        cmd = ['java', '-XX:+UseParallelGC', '-Xss64m', f'-Xmx{heap}', f'-Djava.io.tmpdir={scratch}/jtmp']
        if deque:
            cmd.append('-Dtlc2.tool.queue.IStateQueue=StateDeque')
        if library:
            cmd.append(f'-DTLA-Library={library}')
        cmd += ['-cp', JAR, 'tlc2.TLC', '-metadir', os.path.join(scratch, 'meta'), '-noGenerateSpecTE',
                '-workers', str(workers), '-config', cfg_path]
        if coverage:
            cmd += ['-coverage', '1']
        if simulate is not None:
            sim = f'num={simulate}'
            if dump_trace_dir:
                sim = f'file={dump_trace_dir}/tr,' + sim
            cmd += ['-simulate', sim]
            if depth:
                cmd += ['-depth', str(depth)]
        if seed is not None:
            cmd += ['-seed', str(seed)]
        cmd += list(extra_args)
        cmd.append(module)
        env = dict(os.environ)
        if env_extra:
            env.update(env_extra)
        res.cmd = ' '.join(cmd)
        t0 = time.time()
        try:
            p = subprocess.run(cmd, cwd=spec_dir, env=env, stdout=subprocess.PIPE, stderr=subprocess.STDOUT,
                               timeout=timeout, text=True, errors='replace')
            out = p.stdout
            res.returncode = p.returncode
        except subprocess.TimeoutExpired as e:
            out = e.stdout if isinstance(e.stdout, str) else (e.stdout or b'').decode(errors='replace')
            res.timed_out = True
            subprocess.run(['pkill', '-f', scratch], stdout=subprocess.DEVNULL, stderr=subprocess.DEVNULL)
        res.wall = time.time() - t0
        parse_output(out, res)
        if keep_raw:
            res.raw = out
    finally:
        shutil.rmtree(scratch, ignore_errors=True)
    return res


def parse_output(out, res):
    m = None
    for m in re.finditer(r'(\d+) states generated, (\d+) distinct states found', out):
        pass
    if m:
        res.generated, res.distinct = int(m.group(1)), int(m.group(2))
    m = re.search(r'The depth of the complete state graph search is (\d+)', out)
    if m:
        res.depth = int(m.group(1))
    for line in out.splitlines():
        c = _cov_re.match(line)
        if c:
            name = c.group(1)
            d, t = int(c.group(7)), int(c.group(8))
            od, ot = res.coverage.get(name, (0, 0))
            res.coverage[name] = (od + d, ot + t)
    # violations
    m = re.search(r'Error: Invariant (\w+) is violated', out)
    if m:
        res.violation = m.group(1)
    if not res.violation:
        m = re.search(r'Error: Action property (\w+) is violated', out)
        if m:
            res.violation = m.group(1)
    if not res.violation:
        m = re.search(r'Error: Temporal properties were violated', out)
        if m:
            res.violation = 'temporal'
    if not res.violation and 'Error: Deadlock reached' in out:
        res.violation = 'deadlock'
    if not res.violation:
        m = re.search(r'Error: The postcondition|Error: Postcondition', out)
        if m:
            res.violation = 'postcondition'
    if not res.violation:
        m = re.search(r'Error: (.*)', out)
        if m and 'Error:' in out:
            # an error of TLC itself (evaluation error, resource exhaustion, ...): never a verdict about a property
            res.tlc_error = m.group(1)[:300]
    if res.violation or res.tlc_error:
        i = out.find('Error:')
        res.error_text = out[i:i + 400000]
    res.prints = parse_prints(out)
    finished = ('Model checking completed' in out) or ('Finished in' in out) or ('Finished computing' in out)
    res.ok = (res.violation is None) and not res.tlc_error and not res.timed_out and finished


def parse_prints(out):
    """PrintT output lines: TLC prints the value on its own line(s).  We only rely on
    values printed via ToJson (strings holding JSON) -> a line starting with a quote."""
    vals = []
    for line in out.splitlines():
        s = line.strip()
        if len(s) >= 2 and s[0] == '"' and s[-1] == '"':
            body = s[1:-1]
            try:
                body = bytes(body, 'utf-8').decode('unicode_escape') if '\\' in body else body
                vals.append(json.loads(body))
            except Exception:
                vals.append(s)
    return vals
