"""Who raised an exception: the code under test (a pySDC source file is the innermost frame) or the verification harness.
An error of the library on an input the harness knows to be legal is an OUTCOME (reported as a violation of the property the
scenario belongs to); only errors of the harness itself are machinery failures (exit 2)."""
import traceback

MARK = 'LIBRARY-ERROR'


def origin(e):
    tb = traceback.extract_tb(e.__traceback__)
    if not tb:
        return 'harness'
    last = tb[-1].filename.replace('\\', '/')
    if '/pySDC/' in last and '/verif/' not in last:
        return 'library'
    # errors raised by numpy / python inside a call made from library code count as library errors as well
    for fr in reversed(tb):
        f = fr.filename.replace('\\', '/')
        if '/verif/' in f:
            return 'harness'
        if '/pySDC/' in f:
            return 'library'
    return 'harness'


def describe(e, n=400):
    txt = f'{type(e).__name__}: {e} {traceback.format_exc()[-n:]}'
    return (MARK + ' ' + txt) if origin(e) == 'library' else txt


def is_library(text):
    return isinstance(text, str) and MARK in text
