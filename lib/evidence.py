"""evidence/<id>.json writer and the VIOLATION / KNOWN-FINDING protocol"""
import json
import os
import time

ROOT = os.path.dirname(os.path.dirname(os.path.abspath(__file__)))
# where evidence/ and replays/ are written: /verif, unless a trial run (e.g. against a seeded tree) redirects its output
OUT = os.environ.get('VERIF_OUT') or ROOT


def load_known():
    p = os.path.join(ROOT, 'known_findings.json')
    if not os.path.exists(p):
        return dict(findings=[], fixed=[])
    return json.load(open(p))


class Report:
    def __init__(self, prop, tier, seed, level='model_checking', clear_replays=True):
        self.prop = prop
        self.tier = tier
        self.seed = seed
        self.level = level
        self.t0 = time.time()
        self.states = 0
        self.transitions = 0
        self.traces = 0
        self.samples = []
        self.cov = {}
        self.assumptions = []
        self.violations = []  # (clause, replay dict)
        self.known = {}  # finding id -> count
        self.machinery = []
        self.extra = {}
        self.distinct_nontrivial = 0
        self.evaluations = 0
        self.rule = ''
        import glob
        for f in (glob.glob(os.path.join(OUT, 'replays', f'{prop}_*.json')) if clear_replays else []):
            os.remove(f)

    def add_tlc(self, res, label):
        self.states += res.distinct
        self.transitions += res.generated
        self.cov.setdefault('tlc_runs', []).append(dict(label=label, **res.summary()))
        if getattr(res, 'tlc_error', None):
            self.machinery.append(f'TLC error in "{label}": {res.tlc_error}')
        for k, (d, t) in res.coverage.items():
            c = self.cov.setdefault('actions', {})
            od, ot = c.get(k, (0, 0))
            c[k] = (od + d, ot + t)

    def problem(self, text, replay=None, clause='unexpected_library_error'):
        """a failed scenario: an error raised by the code under test is a violation, anything else a machinery failure"""
        from lib.errors import is_library
        if is_library(text):
            d = dict(kind='library-error', detail=text[:1500])
            d.update(replay or {})
            self.violation(clause, d)
        else:
            self.machinery.append(text)

    def violation(self, clause, replay):
        self.violations.append((clause, replay))

    def finish(self):
        """write evidence + replay files, print protocol lines, return exit code"""
        os.makedirs(os.path.join(OUT, 'evidence'), exist_ok=True)
        os.makedirs(os.path.join(OUT, 'replays'), exist_ok=True)
        code = 0
        for fid, (n, text) in self.known.items():
            print(f'KNOWN-FINDING: property={self.prop} {fid}: {text} (seen {n}x)')
        seen = set()
        for i, (clause, replay) in enumerate(self.violations):
            if clause in seen and i >= 5:
                continue
            seen.add(clause)
            path = os.path.join('replays', f'{self.prop}_{clause.replace(".", "_")}_{i}.json')
            with open(os.path.join(OUT, path), 'w') as f:
                json.dump(replay, f, indent=1, default=str)
            print(f'VIOLATION property={self.prop} replay={path}')
            print(f'  clause={clause}')
            code = 1
        if self.machinery and code == 0:
            for m in self.machinery[:10]:
                print('MACHINERY:', m)
            code = 2
        cov = dict(
            states=int(self.states), transitions=int(self.transitions),
            traces_validated_against_impl=int(self.traces),
            samples=self.samples[:6] or ['(none)'],
            evaluations=int(self.evaluations or self.traces or 1),
            distinct_nontrivial=int(self.distinct_nontrivial),
            rule=self.rule,
            **self.cov, **self.extra,
        )
        ev = dict(property_id=self.prop, tier=self.tier, seed=int(self.seed), level=self.level, coverage=cov,
                  assumptions=self.assumptions, wall_s=round(time.time() - self.t0, 2),
                  violations=len(self.violations),
                  known_findings={k: v[0] for k, v in self.known.items()})
        with open(os.path.join(OUT, 'evidence', f'{self.prop}.json'), 'w') as f:
            json.dump(ev, f, indent=1, default=str)
        print(f'{self.prop} tier={self.tier} states={self.states} traces={self.traces} violations={len(self.violations)} '
              f'known={sum(v[0] for v in self.known.values())} wall={ev["wall_s"]}s exit={code}')
        return code
