import hashlib
import random
import threading

import numpy as np

# ---- constants ------------------------------------------------------------------------------------------
LAND, LOR, MAX, MIN, SUM = 'LAND', 'LOR', 'MAX', 'MIN', 'SUM'
INT, DOUBLE, BOOL, COMPLEX = 'INT', 'DOUBLE', 'BOOL', 'COMPLEX'
ANY_SOURCE, ANY_TAG = -1, -1
MODE_RDONLY, MODE_WRONLY, MODE_APPEND = 1, 2, 4


class Deadlock(Exception):
    pass


class SimMPIError(Exception):
    pass


def _buf(b):
    """buffer argument -> numpy array (view, never a copy); objects that keep their data in an ndarray attribute `v`
    (the Z_p vectors of the verification harness) expose that array"""
    if isinstance(b, (list, tuple)):
        b = b[0]
    if hasattr(b, 'v') and isinstance(getattr(b, 'v'), np.ndarray):
        return b.v
    a = np.asarray(b)
    return a


def _written(b):
    """tell the owner of a receive buffer that it was written (Z_p vectors reduce modulo p)"""
    if isinstance(b, (list, tuple)):
        b = b[0]
    f = getattr(b, 'verif_after_write', None)
    if f is not None:
        f()


def _csum(a):
    return hashlib.sha1(np.ascontiguousarray(a).tobytes()).hexdigest()[:12]


_tls = threading.local()


class World:
    """one simulated MPI job"""

    def __init__(self, nranks, seed=0, policy='random'):
        self.n = nranks
        self.rng = random.Random(seed)
        self.policy = policy  # 'eager' | 'lazy' | 'random'
        self.lock = threading.Condition()
        self.turn = None
        self.state = ['new'] * nranks  # new | running | ready | blocked | done
        self.blocked_on = [None] * nranks
        self.conds = [None] * nranks
        self.events = []
        self.seq = [0] * nranks
        self.sends = []  # unmatched posted sends
        self.recvs = []  # unmatched posted receives
        self.reqs = {}
        self.nreq = 0
        self.ncomm = 0
        self.colls = {}  # (comm id, index) -> dict
        self.deadlock = False
        self.failed = None
        self.world_comm = Intracomm(self, list(range(nranks)), self._new_comm_id())
        self.choices = []  # scheduling decisions taken (for replay)
        self.early_collectives = True

    def _new_comm_id(self):
        self.ncomm += 1
        return self.ncomm

    # -- event log --
    def log(self, rank, kind, **kw):
        self.seq[rank] += 1
        self.events.append(dict(r=rank, s=self.seq[rank], k=kind, **kw))

    # -- scheduling: called with self.lock held --
    def _runnable(self):
        out = []
        for r in range(self.n):
            if self.state[r] == 'ready':
                out.append(r)
            elif self.state[r] == 'blocked' and self.conds[r] is not None and self.conds[r]():
                out.append(r)
        return out

    def _pick_next(self):
        cand = self._runnable()
        if not cand:
            return None
        r = self.rng.choice(cand)
        self.choices.append(r)
        return r

    def _handoff(self, rank):
        """the calling rank gives up the baton (its state is already set)"""
        nxt = self._pick_next()
        if nxt is None:
            self._progress(force_all=True)
            nxt = self._pick_next()
        if nxt is None and any(s == 'blocked' for s in self.state):
            if all(s in ('blocked', 'done') for s in self.state):
                self.deadlock = True
                self.log(rank, 'deadlock', blocked=[str(b) for b in self.blocked_on])
        self.turn = nxt
        self.lock.notify_all()

    def _await_turn(self, rank):
        while self.turn != rank:
            if self.deadlock or self.failed:
                raise Deadlock(f'aborted: blocked on {self.blocked_on}' if self.deadlock else f'aborted: {self.failed}')
            self.lock.wait(timeout=5)
        self.state[rank] = 'running'
        self.conds[rank] = None
        self.blocked_on[rank] = None

    def yield_point(self, rank):
        """give the scheduler a chance to run another rank"""
        with self.lock:
            self._progress()
            self.state[rank] = 'ready'
            self._handoff(rank)
            self._await_turn(rank)

    def block_until(self, rank, cond, what):
        """block the rank until cond() holds (cond is evaluated under the lock)"""
        with self.lock:
            self._progress(force_for=what)
            if cond():
                self.state[rank] = 'ready'
            else:
                self.state[rank] = 'blocked'
                self.conds[rank] = cond
                self.blocked_on[rank] = what
            self._handoff(rank)
            self._await_turn(rank)

    def finish(self, rank):
        with self.lock:
            self.state[rank] = 'done'
            self._handoff(rank)

    # -- matching engine (lock held) --
    def _progress(self, force_for=None, force_all=False):
        """match posted sends and receives according to the policy"""
        changed = True
        while changed:
            changed = False
            for rv in list(self.recvs):
                # first matching send in posting order (non-overtaking)
                for sd in self.sends:
                    if sd['comm'] == rv['comm'] and sd['dst'] == rv['dst'] and sd['src'] == rv['src'] and \
                            (rv['tag'] == ANY_TAG or sd['tag'] == rv['tag']):
                        do = force_all or self.policy == 'eager' or (force_for is not None and force_for in (('req', sd['id']), ('req', rv['id'])))
                        if not do and self.policy == 'random':
                            do = self.rng.random() < 0.5
                        if do:
                            self._match(sd, rv)
                            changed = True
                        break
                if changed:
                    break

    def _match(self, sd, rv):
        self.sends.remove(sd)
        self.recvs.remove(rv)
        now = _csum(sd['buf']) if sd['buf'] is not None else sd['csum']
        if sd['buf'] is not None:
            data = sd['buf']
            dst = rv['buf']
            if dst is not None:
                if dst.size != data.size:
                    self.failed = f'message size mismatch {data.size} -> {dst.size}'
                    raise SimMPIError(self.failed)
                dst[...] = data.reshape(dst.shape)
            else:
                rv['obj'] = np.array(data, copy=True)
        else:
            rv['obj'] = sd['obj']
        sd['done'] = True
        rv['done'] = True
        self.events.append(dict(r=-1, s=0, k='match', send=sd['id'], recv=rv['id'], src=sd['src'], dst=sd['dst'], tag=sd['tag'],
                                comm=sd['comm'], csum_post=sd['csum'], csum_match=now))

    def new_request(self, rec):
        self.nreq += 1
        rec['id'] = self.nreq
        rec['done'] = False
        self.reqs[self.nreq] = rec
        return Request(self, rec)


class Request:
    def __init__(self, world, rec):
        self.w = world
        self.rec = rec

    def Wait(self, status=None):
        rank = _tls.rank
        self.w.log(rank, 'wait', req=self.rec['id'])
        self.w.block_until(rank, lambda: self.rec['done'], ('req', self.rec['id']))
        self.w.log(rank, 'waited', req=self.rec['id'])
        return True

    wait = Wait

    def Test(self, status=None):
        rank = _tls.rank
        self.w.yield_point(rank)
        return bool(self.rec['done'])

    def Cancel(self):
        rank = _tls.rank
        with self.w.lock:
            if not self.rec['done']:
                for q in (self.w.sends, self.w.recvs):
                    if self.rec in q:
                        q.remove(self.rec)
                self.rec['done'] = True
                self.rec['cancelled'] = True
        self.w.log(rank, 'cancel', req=self.rec['id'])

    def __eq__(self, other):
        return other is self

    def __hash__(self):
        return id(self)


REQUEST_NULL = None


def _resolve_world():
    return _tls.world.world_comm


class Intracomm:
    def __init__(self, world, members, cid):
        self.w = world
        self.members = list(members)  # global ranks, in comm-rank order
        self.cid = cid
        self.collcount = {}

    # -- pickling: as in mpi4py, the predefined world communicator is restored as the very same handle; communicators made by
    #    Split cannot be serialised (pySDC's controller_nonMPI then builds its steps one by one instead of copying them)
    def __reduce__(self):
        if self is self.w.world_comm:
            return (_resolve_world, ())
        raise ValueError('cannot serialize a user-defined communicator')

    # -- identity --
    @property
    def rank(self):
        return self.members.index(_tls.rank)

    @property
    def size(self):
        return len(self.members)

    def Get_rank(self):
        return self.rank

    def Get_size(self):
        return self.size

    # -- point to point --
    def _post_send(self, buf, obj, dest, tag, mode):
        me = _tls.rank
        a = _buf(buf) if buf is not None else None
        rec = dict(kind='send', comm=self.cid, src=self.rank, dst=dest, tag=tag, buf=a, obj=obj, mode=mode,
                   csum=_csum(a) if a is not None else 'obj')
        with self.w.lock:
            req = self.w.new_request(rec)
            self.w.sends.append(rec)
            self.w.log(me, 'post_send', req=rec['id'], comm=self.cid, src=rec['src'], dst=dest, tag=tag, mode=mode, csum=rec['csum'])
        self.w.yield_point(me)
        return req

    def _post_recv(self, buf, source, tag):
        me = _tls.rank
        a = _buf(buf) if buf is not None else None
        rec = dict(kind='recv', comm=self.cid, src=source, dst=self.rank, tag=tag, buf=a, obj=None)
        with self.w.lock:
            req = self.w.new_request(rec)
            self.w.recvs.append(rec)
            self.w.log(me, 'post_recv', req=rec['id'], comm=self.cid, src=source, dst=rec['dst'], tag=tag)
        self.w.yield_point(me)
        return req

    def Issend(self, buf, dest=0, tag=0):
        return self._post_send(buf, None, dest, tag, 'Issend')

    def Isend(self, buf, dest=0, tag=0):
        return self._post_send(buf, None, dest, tag, 'Isend')

    def Irecv(self, buf, source=0, tag=ANY_TAG):
        return self._post_recv(buf, source, tag)

    def Send(self, buf, dest=0, tag=0):
        self._post_send(buf, None, dest, tag, 'Send').Wait()

    def Recv(self, buf, source=0, tag=ANY_TAG, status=None):
        self._post_recv(buf, source, tag).Wait()

    def isend(self, obj, dest=0, tag=0):
        return self._post_send(None, obj, dest, tag, 'isend')

    def send(self, obj, dest=0, tag=0):
        self._post_send(None, obj, dest, tag, 'send').Wait()

    def recv(self, source=0, tag=ANY_TAG, status=None):
        req = self._post_recv(None, source, tag)
        req.Wait()
        return req.rec['obj']

    # -- collectives: matched by call order on the communicator --
    # completion rules (MPI: a collective may return as soon as the caller's part is done):
    #   rooted reduction : the root needs every contribution; a non-root MAY return at once (its contribution is copied on entry)
    #   broadcast        : a non-root needs the root; the root MAY return at once
    #   everything else  : all members must have arrived
    # "MAY" is a scheduler decision: policy eager -> at once, lazy -> wait for all, random -> coin
    def _coll(self, kind, value, root=None, op=None):
        me = _tls.rank
        w = self.w
        myrank = self.rank
        with w.lock:
            idx = self.collcount.get(me, 0)
            self.collcount[me] = idx + 1
            slot = w.colls.setdefault((self.cid, idx), dict(kind=kind, vals={}, root=root, op=op, result=None, left=0))
            if slot['kind'] != kind or slot['root'] != root or slot['op'] != op:
                mine = f'{kind}(root={root}, op={op})'
                other = f"{slot['kind']}(root={slot['root']}, op={slot['op']})"
                w.failed = f'collective mismatch on comm {self.cid} #{idx}: {other} vs {mine}'
                w.log(me, 'coll_mismatch', comm=self.cid, idx=idx, op=kind, other=slot['kind'], root=-1 if root is None else int(root))
                w.lock.notify_all()
                raise SimMPIError(w.failed)
            slot['vals'][myrank] = value
            early = False
            if w.early_collectives and kind in ('Reduce', 'reduce', 'Bcast', 'bcast', 'gather', 'Gather'):
                early = w.policy == 'eager' or (w.policy == 'random' and w.rng.random() < 0.5)
            w.log(me, 'coll', comm=self.cid, idx=idx, op=kind, root=-1 if root is None else int(root), cr=myrank, size=self.size)
        if kind in ('Reduce', 'reduce', 'gather', 'Gather'):
            need_all = myrank == root or not early
            cond = (lambda: len(slot['vals']) == self.size) if need_all else (lambda: True)
        elif kind in ('Bcast', 'bcast'):
            if myrank == root:
                cond = (lambda: True) if early else (lambda: len(slot['vals']) == self.size)
            else:
                cond = (lambda: root in slot['vals']) if early else (lambda: len(slot['vals']) == self.size)
        else:
            cond = lambda: len(slot['vals']) == self.size  # noqa: E731
        w.block_until(me, cond, ('coll', self.cid, idx))
        with w.lock:
            w.log(me, 'coll_done', comm=self.cid, idx=idx, op=kind, root=-1 if root is None else int(root), cr=myrank, size=self.size)
        return slot

    def Barrier(self):
        self._coll('Barrier', None)

    def allgather(self, obj):
        s = self._coll('allgather', obj)
        return [s['vals'][r] for r in range(self.size)]

    def bcast(self, obj=None, root=0):
        import copy
        s = self._coll('bcast', copy.deepcopy(obj) if self.rank == root else None, root=root)
        return s['vals'][root]

    def Bcast(self, buf, root=0):
        a = _buf(buf)
        s = self._coll('Bcast', np.array(a, copy=True) if self.rank == root else None, root=root)
        if self.rank != root:
            a[...] = s['vals'][root].reshape(a.shape)
            _written(buf)

    @staticmethod
    def _reduce(vals, op):
        if op in (None, SUM):
            r = vals[0]
            for v in vals[1:]:
                r = r + v
            return r
        if op == MAX:
            return max(vals)
        if op == MIN:
            return min(vals)
        if op == LAND:
            return all(bool(v) for v in vals)
        if op == LOR:
            return any(bool(v) for v in vals)
        raise SimMPIError(f'unsupported op {op}')

    def allreduce(self, sendobj=None, op=SUM):
        s = self._coll('allreduce', sendobj, op=op)
        return self._reduce([s['vals'][r] for r in range(self.size)], op)

    def Allreduce(self, sendbuf, recvbuf, op=SUM):
        a = np.array(_buf(sendbuf), copy=True)
        s = self._coll('Allreduce', a, op=op)
        vals = [s['vals'][r] for r in range(self.size)]
        if op == SUM:
            r = vals[0].copy()
            for v in vals[1:]:
                r = r + v
        elif op == MAX:
            r = np.maximum.reduce(vals)
        elif op == MIN:
            r = np.minimum.reduce(vals)
        else:
            raise SimMPIError(f'unsupported op {op}')
        _buf(recvbuf)[...] = r
        _written(recvbuf)

    def Reduce(self, sendbuf, recvbuf, root=0, op=SUM):
        a = np.array(_buf(sendbuf), copy=True)
        s = self._coll('Reduce', a, root=root, op=op)
        if self.rank == root:
            vals = [s['vals'][r] for r in range(self.size)]
            r = vals[0].copy()
            for v in vals[1:]:
                r = (r + v) if op == SUM else (np.maximum(r, v) if op == MAX else np.minimum(r, v))
            _buf(recvbuf)[...] = r
            _written(recvbuf)

    def Split(self, color=0, key=0):
        me = _tls.rank
        s = self._coll('Split', (int(color) if color is not None else None, key))
        with self.w.lock:
            if s['result'] is None:
                groups = {}
                for r in range(self.size):
                    c, k = s['vals'][r]
                    groups.setdefault(c, []).append((k, r))
                res = {}
                for c, lst in sorted(groups.items(), key=lambda kv: str(kv[0])):
                    lst.sort()
                    res[c] = Intracomm(self.w, [self.members[r] for _, r in lst], self.w._new_comm_id())
                s['result'] = res
        return s['result'][int(color) if color is not None else None]

    def Free(self):
        self.w.log(_tls.rank, 'free', comm=self.cid)

    def Abort(self, code=1):
        raise SimMPIError('Abort called')


class _CommWorldProxy:
    """COMM_WORLD resolves to the world communicator of the simulated job the calling thread belongs to"""

    def __getattr__(self, name):
        return getattr(_tls.world.world_comm, name)


COMM_WORLD = _CommWorldProxy()


def run_world(nranks, target, seed=0, policy='random', timeout=120):
    """run target(rank_comm) on nranks simulated ranks; returns (results, world, errors)"""
    w = World(nranks, seed=seed, policy=policy)
    results = [None] * nranks
    errors = [None] * nranks

    def body(r):
        _tls.rank = r
        _tls.world = w
        try:
            # wait for the first turn
            with w.lock:
                w.state[r] = 'ready'
                if all(st != 'new' for st in w.state) and w.turn is None:
                    w.turn = w._pick_next()
                    w.lock.notify_all()
                w._await_turn(r)
            results[r] = target(w.world_comm)
        except BaseException as e:  # noqa
            errors[r] = e
            with w.lock:
                if not isinstance(e, Deadlock):
                    w.failed = w.failed or f'rank {r}: {type(e).__name__}: {e}'
                w.lock.notify_all()
        finally:
            w.finish(r)

    threads = [threading.Thread(target=body, args=(r,), daemon=True) for r in range(nranks)]
    for t in threads:
        t.start()
    for t in threads:
        t.join(timeout=timeout)
    hung = any(t.is_alive() for t in threads)
    if hung:
        with w.lock:
            w.failed = w.failed or 'timeout'
            w.deadlock = True
            w.lock.notify_all()
    return results, w, errors
