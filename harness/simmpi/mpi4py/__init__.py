"""Deterministic simulated MPI standing in for mpi4py (not installable in this sandbox).  Only what pySDC's MPI
code paths call is provided.  Every rank is a thread that runs only while it holds the baton; every MPI call is a
scheduling point; matching / completion of non-blocking operations is a scheduler decision.  See MPI.py."""
from . import MPI  # noqa: F401
