"""Fixed-step runs of the real controllers with arbitrary floating-point (t0, dt, Tend); accepted steps are projected
to ranks of the floats that occur (exact comparisons only) and content ids of the values."""
import hashlib
from fractions import Fraction

import numpy as np

from pySDC.core.hooks import Hooks


class _Log(Hooks):
    def __init__(self):
        super().__init__()
        self.steps = []

    def post_step(self, step, level_number):
        super().post_step(step, level_number)
        L = step.levels[0]
        self.steps.append(dict(t=float(L.time), e=float(L.time + L.dt), dt=float(L.dt), u0=_h(L.u[0]), ue=_h(L.uend),
                               restart=bool(step.status.get('restart'))))


def _h(x):
    return hashlib.sha1(np.asarray(x).tobytes()).hexdigest()[:12]


def expected_count(t0, dt, tend):
    """smallest N with t0 + N*dt >= Tend up to rounding: the quotient is computed exactly from the floats given; it counts as an
    integer if it is one within the representation error of the inputs (relative 1e-9, or 2 ulp of the largest time over dt)"""
    import math
    q = (Fraction(tend) - Fraction(t0)) / Fraction(dt)
    n = int(q)
    if q != n:
        tol = max(Fraction(1, 10 ** 9), 2 * Fraction(math.ulp(max(abs(t0), abs(tend), 1e-300))) / Fraction(dt))
        if abs(q - round(q)) <= tol:
            return int(round(q))
        return n + 1
    return n


def run(case):
    from pySDC.implementations.controller_classes.controller_nonMPI import controller_nonMPI
    from pySDC.implementations.problem_classes.TestEquation_0D import testequation0d
    from pySDC.implementations.sweeper_classes.generic_implicit import generic_implicit
    t0, dt, tend, NP = case['t0'], case['dt'], case['tend'], case['NP']
    desc = dict(problem_class=testequation0d, problem_params=dict(lambdas=np.array([-0.1]), u0=1.0), sweeper_class=generic_implicit,
                sweeper_params=dict(num_nodes=2, quad_type='RADAU-RIGHT', QI='IE'), level_params=dict(dt=dt, restol=-1.0),
                step_params=dict(maxiter=1))
    if case.get('NL', 1) > 1:
        from harness.transfer import IdentitySpaceTransfer
        desc['sweeper_params']['num_nodes'] = [2, 1]
        desc['space_transfer_class'] = IdentitySpaceTransfer
    c = controller_nonMPI(num_procs=NP, controller_params=dict(logger_level=50, dump_setup=False, hook_class=[_Log]), description=desc)
    P = c.MS[0].levels[0].prob
    u0 = P.u_exact(0.0)
    init = _h(u0)
    out = dict(exc=None)
    try:
        uend, stats = c.run(u0=u0, t0=t0, Tend=tend)
    except Exception as e:  # noqa
        out['exc'] = type(e).__name__
        return out
    log = [h for h in c.hooks if isinstance(h, _Log)][0].steps
    steps = sorted([s for s in log if not s['restart']], key=lambda s: s['t'])
    floats = sorted({t0, tend} | {s['t'] for s in steps} | {s['e'] for s in steps})
    rank = {f: k + 1 for k, f in enumerate(floats)}
    ids = {}
    cid = lambda h: ids.setdefault(h, len(ids) + 1)  # noqa
    # "up to rounding": within 1e-9 * dt of Tend, or within the rounding error n additions of numbers of the magnitude of the
    # times can accumulate (one unit in the last place per addition) -- the latter dominates for large |t0|
    import math
    mag = max(abs(t0), abs(tend), 1e-300)
    slack = max(Fraction(dt) / 10 ** 9, (len(steps) + 2) * Fraction(math.ulp(mag)))
    slack = min(slack, Fraction(dt) / 4)  # never so wide that a genuinely different start time counts as Tend
    near = lambda x: abs(Fraction(x) - Fraction(tend)) <= slack  # noqa

    def close(a, b):  # equal up to 4 units in the last place of the larger magnitude
        return abs(Fraction(a) - Fraction(b)) <= 4 * Fraction(math.ulp(max(abs(a), abs(b), 1e-300)))

    for k, s in enumerate(steps):
        s['contig'] = True if k == 0 else bool(close(s['t'], steps[k - 1]['e']))
    out.update(t0=rank[t0], tend=rank[tend], n_expected=expected_count(t0, dt, tend), init=cid(init), ret=cid(_h(uend)),
               steps=[dict(s=rank[s['t']], e=rank[s['e']], u0=cid(s['u0']), ue=cid(s['ue']), near_tend=bool(near(s['t'])),
                           end_near_tend=bool(near(s['e'])), contig=s['contig'], first_ok=bool(close(s['t'], t0))) for s in steps],
               raw=[(s['t'], s['dt']) for s in steps[-3:]])
    return out
