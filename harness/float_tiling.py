"""Fixed-step runs of the real controllers with arbitrary floating-point (t0, dt, Tend); accepted steps are projected
to ranks of the floats that occur (exact comparisons only) and content ids of the values."""
import hashlib
from fractions import Fraction

import numpy as np

from pySDC.core.hooks import Hooks


class _Log(Hooks):
    def __init__(self):
        super().__init__()
        self.steps = []

    def post_step(self, step, level_number):
        super().post_step(step, level_number)
        L = step.levels[0]
        self.steps.append(dict(t=float(L.time), e=float(L.time + L.dt), dt=float(L.dt), u0=_h(L.u[0]), ue=_h(L.uend),
                               restart=bool(step.status.get('restart')), slot=int(step.status.slot),
                               u0v=np.array(L.u[0], copy=True).ravel(), uev=np.array(L.uend, copy=True).ravel()))


def _h(x):
    return hashlib.sha1(np.asarray(x).tobytes()).hexdigest()[:12]


def expected_count(t0, dt, tend):
    """smallest N with t0 + N*dt >= Tend up to rounding: the quotient is computed exactly from the floats given; it counts as an
    integer if it is one within the representation error of the inputs (relative 1e-9, or 2 ulp of the largest time over dt)"""
    import math
    q = (Fraction(tend) - Fraction(t0)) / Fraction(dt)
    n = int(q)
    if q != n:
        tol = max(Fraction(1, 10 ** 9), 2 * Fraction(math.ulp(max(abs(t0), abs(tend), 1e-300))) / Fraction(dt))
        if abs(q - round(q)) <= tol:
            return int(round(q))
        return n + 1
    return n


def _description(case):
    from pySDC.implementations.problem_classes.TestEquation_0D import testequation0d
    from pySDC.implementations.sweeper_classes.generic_implicit import generic_implicit
    dt = case['dt']
    desc = dict(problem_class=testequation0d, problem_params=dict(lambdas=np.array([-0.1]), u0=1.0), sweeper_class=generic_implicit,
                sweeper_params=dict(num_nodes=2, quad_type='RADAU-RIGHT', QI='IE'), level_params=dict(dt=dt, restol=-1.0),
                step_params=dict(maxiter=1))
    if case.get('NL', 1) > 1:
        from harness.transfer import IdentitySpaceTransfer
        desc['sweeper_params']['num_nodes'] = [2, 1]
        desc['space_transfer_class'] = IdentitySpaceTransfer
    if case.get('ctrl') == 'paradiag':
        from pySDC.implementations.sweeper_classes.ParaDiagSweepers import QDiagonalization
        desc['sweeper_class'] = QDiagonalization
        desc['sweeper_params'] = dict(num_nodes=2, quad_type='RADAU-RIGHT', initial_guess='spread')
        desc['level_params'] = dict(dt=dt, restol=1e-9)
        desc['step_params'] = dict(maxiter=30)
    return desc


def _run_mpi(case):
    """controller_MPI on the simulated MPI, one rank per step of a block; the per-rank step logs are merged"""
    import os
    import sys
    sim = os.path.join(os.path.dirname(os.path.abspath(__file__)), 'simmpi')
    if sim not in sys.path:
        sys.path.insert(0, sim)
    from mpi4py import MPI
    from pySDC.implementations.controller_classes.controller_MPI import controller_MPI
    t0, tend, NP = case['t0'], case['tend'], case['NP']

    def target(comm):
        class L_(_Log):
            pass
        c = controller_MPI(controller_params=dict(logger_level=50, dump_setup=False, hook_class=[L_]), description=_description(case), comm=comm)
        P = c.S.levels[0].prob
        u0 = P.u_exact(0.0)
        sizes = []
        orig = c.restart_block

        def rb(size, time, u, comm):
            sizes.append(size)
            return orig(size, time, u, comm)

        c.restart_block = rb
        uend, stats = c.run(u0=u0, t0=t0, Tend=tend)
        return dict(steps=[h for h in c.hooks if isinstance(h, _Log)][0].steps, uend=_h(uend), init=_h(u0), last_size=sizes[-1] if sizes else 0, rank=comm.rank)

    results, w, errors = MPI.run_world(NP, target, seed=case.get('sched', 0), policy='random', timeout=300)
    errs = [e for e in errors if e is not None]
    if errs or w.deadlock:
        return None, None, None, (type(errs[0]).__name__ if errs else 'Deadlock')
    log = []
    for r in results:
        log += r['steps']
    nlast = results[0]['last_size']
    rets = {r['uend'] for r in results if r['rank'] < nlast}
    # ranks of the last block must agree on the returned value; a disagreement is reported as a foreign value id
    ret = results[0]['uend'] if len(rets) == 1 else 'ranks-disagree'
    return log, results[0]['init'], ret, None


def run(case):
    from pySDC.implementations.controller_classes.controller_nonMPI import controller_nonMPI
    t0, dt, tend, NP = case['t0'], case['dt'], case['tend'], case['NP']
    out = dict(exc=None)
    if case.get('ctrl') == 'mpi':
        log, init, ret_h, exc = _run_mpi(case)
        if exc:
            out['exc'] = exc
            return out
        return _project(case, out, log, init, ret_h)
    desc = _description(case)
    if case.get('ctrl') == 'paradiag':
        from pySDC.implementations.controller_classes.controller_ParaDiag_nonMPI import controller_ParaDiag_nonMPI
        c = controller_ParaDiag_nonMPI(num_procs=NP, controller_params=dict(logger_level=50, dump_setup=False, hook_class=[_Log], mssdc_jac=False, alpha=1e-4),
                                       description=desc)
        for prob in [S.levels[0].prob for S in c.MS]:
            prob.init = tuple([*prob.init[:2]] + [np.dtype('complex128')])
    else:
        c = controller_nonMPI(num_procs=NP, controller_params=dict(logger_level=50, dump_setup=False, hook_class=[_Log]), description=desc)
    P = c.MS[0].levels[0].prob
    u0 = P.u_exact(0.0)
    init = _h(u0)
    try:
        uend, stats = c.run(u0=u0, t0=t0, Tend=tend)
    except Exception as e:  # noqa
        out['exc'] = type(e).__name__
        return out
    log = [h for h in c.hooks if isinstance(h, _Log)][0].steps
    return _project(case, out, log, init, _h(uend))


def _project(case, out, log, init, ret_h):
    t0, dt, tend = case['t0'], case['dt'], case['tend']
    steps = sorted([s for s in log if not s['restart']], key=lambda s: s['t'])
    floats = sorted({t0, tend} | {s['t'] for s in steps} | {s['e'] for s in steps})
    rank = {f: k + 1 for k, f in enumerate(floats)}
    ids = {}
    cid = lambda h: ids.setdefault(h, len(ids) + 1)  # noqa
    # "up to rounding": within 1e-9 * dt of Tend, or within the rounding error n additions of numbers of the magnitude of the
    # times can accumulate (one unit in the last place per addition) -- the latter dominates for large |t0|
    import math
    mag = max(abs(t0), abs(tend), 1e-300)
    slack = max(Fraction(dt) / 10 ** 9, (len(steps) + 2) * Fraction(math.ulp(mag)))
    slack = min(slack, Fraction(dt) / 4)  # never so wide that a genuinely different start time counts as Tend
    near = lambda x: abs(Fraction(x) - Fraction(tend)) <= slack  # noqa

    def close(a, b):
        # equal up to 4 units in the last place -- of the magnitude of the times the run computes with: where the time axis crosses
        # zero the two expressions the code uses for one instant cancel differently, and the difference is an ulp of |t0|, not of
        # the (tiny) result
        return abs(Fraction(a) - Fraction(b)) <= 4 * Fraction(math.ulp(max(abs(a), abs(b), mag)))

    for k, s in enumerate(steps):
        s['contig'] = True if k == 0 else bool(close(s['t'], steps[k - 1]['e']))
        # ParaDiag solves the steps of a block simultaneously up to its residual tolerance: INSIDE a block the start value of a
        # step equals the predecessor's end value only up to that tolerance (between blocks the value is copied)
        s['chain_ok'] = bool(case.get('ctrl') == 'paradiag' and k > 0 and s['slot'] > 0
                             and np.allclose(s['u0v'], steps[k - 1]['uev'], rtol=1e-6, atol=1e-9))
    out.update(t0=rank[t0], tend=rank[tend], n_expected=expected_count(t0, dt, tend), init=cid(init), ret=cid(ret_h),
               steps=[dict(s=rank[s['t']], e=rank[s['e']], u0=cid(s['u0']), ue=cid(s['ue']), near_tend=bool(near(s['t'])),
                           end_near_tend=bool(near(s['e'])), contig=s['contig'], chain_ok=s['chain_ok'], first_ok=bool(close(s['t'], t0))) for s in steps],
               raw=[(s['t'], s['dt']) for s in steps[-3:]],
               # for every step: does its start fall short of Tend by MORE than the code's absolute threshold of 10 eps (evaluated with
               # the code's own float expression)?  Only such a step can be the surplus step of the known rounding defect.
               short=[bool(s['t'] < tend - 10 * np.finfo(float).eps) and not bool(s['t'] < tend - abs(dt) / 2) for s in steps])
    return out
