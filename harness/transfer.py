"""Space transfer classes used by the harness (public extension point space_transfer_class)."""
from pySDC.core.space_transfer import SpaceTransfer


class IdentitySpaceTransfer(SpaceTransfer):
    """same spatial degrees of freedom on both levels: restriction and prolongation are copies"""

    def restrict(self, F):
        return type(F)(F)

    def prolong(self, G):
        return type(G)(G)
