"""Complete runs of the real controller_nonMPI (SDC / MSSDC / MLSDC / PFASST) over Z_p.
With strictly triangular (nilpotent) operators every variant converges EXACTLY after finitely many iterations, so
"iterated to its residual tolerance" means "defect is exactly zero" and results can be compared for equality."""
import itertools

import numpy as np

from harness import zp
from harness.zp_cases import ZpBaseTransfer, ZpSpaceTransfer, level_description, sweeper_class, dt_float, vecs
from pySDC.core.hooks import Hooks


class ZpRecHook(Hooks):
    log = None

    def post_step(self, step, level_number):
        super().post_step(step, level_number)
        L = step.levels[0]
        ZpRecHook.log.append(dict(slot=step.status.slot, t=float(L.time), u0=L.u[0].tolist(), U=vecs(L.u[1:]), uend=L.uend.tolist(),
                                  niter=int(step.status.iter), res=int(L.status.residual), restart=bool(step.status.get('restart'))))


def random_run_config(rng, P):
    kind = rng.choice(['impl', 'imex', 'impl', 'expl'])
    n = 3 if P == 3 else 2
    NL = rng.choice([1, 1, 2, 2, 3])
    NP = rng.choice([1, 2, 3])
    Ms = sorted([rng.randint(1, 3) for _ in range(NL)], reverse=True)
    while P ** (Ms[0] * n) > 1000:
        Ms = [max(1, m - 1) for m in Ms]
    z = lambda: rng.randrange(P)  # noqa
    levels = []
    for l in range(NL):
        M = Ms[l]
        # strictly upper triangular operators: nilpotent
        A = [[z() if j > i else 0 for j in range(n)] for i in range(n)]
        B = [[0] * n for _ in range(n)] if kind == 'impl' else [[z() if j > i else 0 for j in range(n)] for i in range(n)]
        Q = [[z() for _ in range(M)] for _ in range(M)]
        QI = [[0] * M for _ in range(M)] if kind == 'expl' else [[z() if j <= i else 0 for j in range(M)] for i in range(M)]
        QE = [[0] * M for _ in range(M)] if kind == 'impl' else [[z() if j < i else 0 for j in range(M)] for i in range(M)]
        levels.append(dict(kind=kind, M=M, n=n, dt=1, rightnode=True, collupdate=False, A=A, B=B, c=0, Q=Q, QI=QI, QE=QE,
                           w=list(Q[M - 1]), tn=[0] * M, g=[0] * n))
    dt = rng.choice([1, 2])
    for L in levels:
        L['dt'] = dt
    transfers = []
    for l in range(NL - 1):
        Mf, Mc = levels[l]['M'], levels[l + 1]['M']
        Rc = [[z() for _ in range(Mf)] for _ in range(Mc)]
        for row in Rc:
            row[-1] = (1 - sum(row[:-1])) % P  # H1: rows sum to one
        Rc[-1] = [0] * (Mf - 1) + [1]  # H2: both levels own the right end point
        Pc = [[z() for _ in range(Mc)] for _ in range(Mf)]
        eye = [[1 if i == j else 0 for j in range(n)] for i in range(n)]
        transfers.append(dict(Rc=Rc, Pc=Pc, Rs=eye, Ps=eye))
    pred = rng.choice([None, 'fine_only', 'pfasst_burnin']) if NL > 1 else None
    r = rng.random()
    if r < 0.2:
        levels[0]['collupdate'] = True  # quadrature end point with w = last row of Q: same value at the fixed point
    elif r < 0.65 and NL == 1:
        # right end of the interval is not a node: the end value is u0 + dt * sum_j w_j f(u_j) with weights of their own
        levels[0]['rightnode'] = False
        levels[0]['w'] = [z() for _ in range(levels[0]['M'])]
        # ... with or without the LEFT end as a node (RADAU-LEFT / GAUSS): the end-value rule is the same
        levels[0]['leftnode'] = rng.random() < 0.5
    return dict(P=P, kind=kind, NP=NP, NL=NL, levels=levels, transfers=transfers, pred=pred, jac=rng.choice([True, False]),
                nsweeps=[rng.choice([1, 2]) for _ in range(NL - 1)] + [1], nsteps=rng.choice([NP, NP + 1, 2 * NP]),
                u_init=[z() for _ in range(n)], maxiter=40)


def iteration_config(rng, P):
    """one step, 2 or 3 levels, exactly K iterations from the spread initial guess (the residual tolerance is never met):
    general (not nilpotent) operators, arbitrary numbers of sweeps on the non-coarsest levels"""
    kind = rng.choice(['impl', 'imex', 'expl', 'impl'])
    n = rng.choice([1, 2])
    NL = rng.choice([2, 3, 3])
    Ms = sorted([rng.randint(1, 3) for _ in range(NL)], reverse=True)
    z = lambda: rng.randrange(P)  # noqa
    dt = rng.choice([1, 2])
    levels = []
    for l in range(NL):
        M = Ms[l]
        A = [[z() for _ in range(n)] for _ in range(n)]
        B = [[0] * n for _ in range(n)] if kind == 'impl' else [[z() for _ in range(n)] for _ in range(n)]
        Q = [[z() for _ in range(M)] for _ in range(M)]
        QI = [[0] * M for _ in range(M)] if kind == 'expl' else [[z() if j <= i else 0 for j in range(M)] for i in range(M)]
        QE = [[0] * M for _ in range(M)] if kind == 'impl' else [[z() if j < i else 0 for j in range(M)] for i in range(M)]
        levels.append(dict(kind=kind, M=M, n=n, dt=dt, rightnode=True, collupdate=False, A=A, B=B, c=0, Q=Q, QI=QI, QE=QE,
                           w=list(Q[M - 1]), tn=[0] * M, g=[0] * n))
    transfers = []
    for l in range(NL - 1):
        Mf, Mc = levels[l]['M'], levels[l + 1]['M']
        Rc = [[z() for _ in range(Mf)] for _ in range(Mc)]
        for row in Rc:
            row[-1] = (1 - sum(row[:-1])) % P
        transfers.append(dict(Rc=Rc, Pc=[[z() for _ in range(Mc)] for _ in range(Mf)],
                              Rs=[[z() for _ in range(n)] for _ in range(n)], Ps=[[z() for _ in range(n)] for _ in range(n)]))
    return dict(P=P, kind=kind, NP=1, NL=NL, levels=levels, transfers=transfers, pred=None, jac=True,
                nsweeps=[rng.choice([1, 2, 3]) for _ in range(NL - 1)] + [1], nsteps=1, u_init=[z() for _ in range(n)],
                maxiter=rng.choice([1, 1, 2]), restol=-1.0, probe=[z() for _ in range(n)])


def run(cfg):
    """returns the recorded steps of the run (or raises)"""
    from pySDC.implementations.controller_classes.controller_nonMPI import controller_nonMPI
    from pySDC.implementations.hooks.log_solution import LogSolution
    from pySDC.helpers.stats_helper import get_sorted
    P = cfg['P']
    zp.set_modulus(P)
    zp.install_generators()
    kind = cfg['kind']
    descs = [level_description(L, kind) for L in cfg['levels']]
    keys = [d[3] for d in descs]
    try:
        pc = descs[0][0]
        pp = {k: [d[1][k] for d in descs] for k in descs[0][1]}
        swp = {k: [d[2][k] for d in descs] for k in descs[0][2]}
        desc = dict(problem_class=pc, problem_params=pp, sweeper_class=sweeper_class(kind), sweeper_params=swp,
                    level_params=dict(dt=dt_float(cfg['levels'][0]['dt']), restol=cfg.get('restol', 0.5), nsweeps=list(cfg['nsweeps'])),
                    step_params=dict(maxiter=cfg['maxiter']))
        if cfg['NL'] > 1:
            desc['base_transfer_class'] = ZpBaseTransfer
            desc['base_transfer_params'] = [dict(Rc=cfg['transfers'][0]['Rc'], Pc=cfg['transfers'][0]['Pc'])] + [dict(Rc=t['Rc'], Pc=t['Pc']) for t in cfg['transfers']]
            desc['space_transfer_class'] = ZpSpaceTransfer
            desc['space_transfer_params'] = [dict(Rs=cfg['transfers'][0]['Rs'], Ps=cfg['transfers'][0]['Ps'])] + [dict(Rs=t['Rs'], Ps=t['Ps']) for t in cfg['transfers']]
        cp = dict(logger_level=50, dump_setup=False, hook_class=[ZpRecHook, LogSolution], mssdc_jac=cfg['jac'])
        if cfg['pred']:
            cp['predict_type'] = cfg['pred']
        ZpRecHook.log = []
        c = controller_nonMPI(num_procs=cfg['NP'], controller_params=cp, description=desc)
        dtf = dt_float(cfg['levels'][0]['dt'])
        u0 = zp.zmesh(list(cfg['u_init']))
        uend, stats = c.run(u0=u0, t0=0.0, Tend=dtf * cfg['nsteps'])
        steps = sorted(ZpRecHook.log, key=lambda s: s['t'])
        logged = [[float(t), v.tolist()] for t, v in get_sorted(stats, type='u', sortby='time')]
        return dict(steps=steps, ret=uend.tolist(), logged=logged, caller_u0_unchanged=u0.tolist() == list(cfg['u_init']))
    finally:
        for k in keys:
            zp.REG.pop(k, None)
