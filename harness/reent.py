"""Execute a Reentrancy.tla history (controller creations and runs in one process) with the real pySDC and return
bit hashes of every run's solution and statistics (timings aside)."""
import hashlib
import json

import numpy as np

DT = 1.0 / 16.0
PLAIN_CP = dict(logger_level=50, dump_setup=False)


def build(kind):
    from pySDC.implementations.problem_classes.TestEquation_0D import testequation0d
    from pySDC.implementations.problem_classes.HeatEquation_ND_FD import heatNd_unforced
    from pySDC.implementations.sweeper_classes.generic_implicit import generic_implicit
    from pySDC.implementations.transfer_classes.TransferMesh import mesh_to_mesh
    test = dict(problem_class=testequation0d, problem_params=dict(lambdas=np.array([-1.0 + 2.0j, -0.3]), u0=1.0),
                sweeper_class=generic_implicit, sweeper_params=dict(num_nodes=3, quad_type='RADAU-RIGHT', QI='LU'),
                level_params=dict(dt=DT, restol=1e-10), step_params=dict(maxiter=6))
    heat = dict(problem_class=heatNd_unforced, problem_params=dict(nu=0.1, freq=2, nvars=[31, 15], bc='dirichlet-zero'),
                sweeper_class=generic_implicit, sweeper_params=dict(num_nodes=[3, 2], quad_type='RADAU-RIGHT', QI='LU'),
                level_params=dict(dt=DT, restol=1e-9), step_params=dict(maxiter=8),
                space_transfer_class=mesh_to_mesh, space_transfer_params=dict(rorder=2, iorder=2))
    cp = dict(logger_level=50, dump_setup=False)
    if kind == 'sdc':
        return 1, cp, test
    if kind == 'hookadd':
        # a convergence controller that registers logging hooks itself (as Adaptivity and the error estimators do), with the plain
        # controller parameters: what it registers belongs to ITS controller only
        return 2, cp, dict(test, convergence_controllers={_make_hook_adder(): {}})
    if kind == 'dtinit':
        # a level parameter that is legal but has no effect on a fixed-step run: the step size used is `dt`
        return 1, cp, dict(test, level_params=dict(dt=DT, dt_initial=DT / 2, restol=1e-10))
    if kind == 'mssdc':
        return 3, dict(cp, mssdc_jac=False), test
    if kind == 'errest':
        from pySDC.implementations.convergence_controller_classes.estimate_embedded_error import EstimateEmbeddedError
        from pySDC.implementations.hooks.log_embedded_error_estimate import LogEmbeddedErrorEstimate
        d = dict(test, level_params=dict(dt=DT, restol=-1.0), step_params=dict(maxiter=4),
                 convergence_controllers={EstimateEmbeddedError: {}})
        return 2, dict(cp, mssdc_jac=False, hook_class=[LogEmbeddedErrorEstimate]), d
    if kind == 'logs':
        from pySDC.implementations.hooks.log_solution import LogSolution
        from pySDC.implementations.hooks.log_work import LogWork
        return 2, dict(cp, hook_class=[LogSolution, LogWork]), test
    if kind == 'etol':
        # increment-based termination: CheckConvergence loads EstimateEmbeddedError and registers extra level status variables
        d = dict(test, level_params=dict(dt=DT, restol=-1.0, e_tol=1e-7), step_params=dict(maxiter=12))
        return 1, cp, d
    if kind == 'getdef':
        return 2, dict(cp, hook_class=[_ProbeHook]), test
    if kind == 'mlsdc':
        return 1, cp, heat
    if kind == 'pfasst':
        return 3, dict(cp, predict_type='pfasst_burnin'), heat
    if kind in ('rand1', 'rand2'):
        # random initial guess, fixed number of iterations: the result depends on the numbers drawn -- every sweeper must draw them
        # from a generator of its own, seeded by its own parameter
        d = dict(test, sweeper_params=dict(num_nodes=3, quad_type='RADAU-RIGHT', QI='LU', initial_guess='random',
                                           random_seed=1984 if kind == 'rand1' else 7),
                 level_params=dict(dt=DT, restol=-1.0), step_params=dict(maxiter=2))
        return 2, dict(cp, mssdc_jac=False), d
    if kind in ('adapt', 'adaptres'):
        # error- / residual-based step-size control with restarts on the van der Pol oscillator, 2 steps per block
        from pySDC.implementations.problem_classes.Van_der_Pol_implicit import vanderpol
        from pySDC.implementations.convergence_controller_classes.adaptivity import Adaptivity, AdaptivityResidual
        from pySDC.implementations.hooks.log_step_size import LogStepSize
        from pySDC.implementations.hooks.log_restarts import LogRestarts
        vdp = dict(problem_class=vanderpol, problem_params=dict(mu=5.0, newton_tol=1e-10, newton_maxiter=99, u0=np.array([2.0, 0.0])),
                   sweeper_class=generic_implicit, sweeper_params=dict(num_nodes=3, quad_type='RADAU-RIGHT', QI='LU'),
                   level_params=dict(dt=2 * DT, restol=-1.0 if kind == 'adapt' else 1e-9), step_params=dict(maxiter=3 if kind == 'adapt' else 4))
        vdp['convergence_controllers'] = {Adaptivity: dict(e_tol=3e-5)} if kind == 'adapt' else {AdaptivityResidual: dict(e_tol=1e-4, max_restarts=3)}
        return 2, dict(cp, mssdc_jac=False, hook_class=[LogStepSize, LogRestarts]), vdp
    raise KeyError(kind)


_HOOK_ADDER = []


def _make_hook_adder():
    if not _HOOK_ADDER:
        from pySDC.core.convergence_controller import ConvergenceController
        from pySDC.implementations.hooks.log_step_size import LogStepSize
        from pySDC.implementations.hooks.log_work import LogSDCIterations

        class HookAdder(ConvergenceController):
            def setup(self, controller, params, description, **kwargs):
                controller.add_hook(LogStepSize)
                controller.add_hook(LogSDCIterations)
                return {'control_order': -30, **super().setup(controller, params, description, **kwargs)}

        _HOOK_ADDER.append(HookAdder)
    return _HOOK_ADDER[0]


class _ProbeHookBase:
    pass


def _make_probe():
    from pySDC.core.hooks import Hooks

    class ProbeHook(Hooks):
        """a user hook reading an optional status variable with a fallback"""

        def post_step(self, step, level_number):
            super().post_step(step, level_number)
            L = step.levels[level_number]
            self.add_to_stats(process=step.status.slot, time=L.time, level=L.level_index, iter=step.status.iter, sweep=L.status.sweep,
                              type='probe', value=L.status.get('error_embedded_estimate', L.status.residual))

    return ProbeHook


_ProbeHook = _make_probe()


def _h(b):
    return hashlib.sha1(b).hexdigest()[:16]


def hash_value(v):
    a = np.asarray(v)
    return _h(str(a.dtype).encode() + str(a.shape).encode() + a.tobytes())


def hash_stats(stats):
    items = []
    for k, v in stats.items():
        if str(k.type).startswith('timing'):
            continue
        if isinstance(v, np.ndarray):
            val = hash_value(v)
        elif isinstance(v, (float, np.floating)):
            val = float(v).hex()
        elif isinstance(v, complex):
            val = repr(v)
        else:
            val = repr(v)
        items.append((repr(tuple(k)), val))
    items.sort()
    return _h(json.dumps(items).encode()), len(items)


def execute(hist):
    """returns list (one entry per op) of None / dict(sol=.., stats=.., nstats=..)"""
    import copy
    from pySDC.implementations.controller_classes.controller_nonMPI import controller_nonMPI
    ctrls = {}
    shared_cp = dict(PLAIN_CP)
    values = []  # actual result objects of earlier runs, in order
    kept_stats = []  # the statistics dictionaries handed out, in order
    out = []
    for op in hist:
        if op['op'] == 'new':
            np_, cp, desc = build(op['kind'])
            # users hand the SAME controller_params dictionary to several controllers: all kinds whose parameters are the plain
            # ones share one dictionary object within a history (a controller must not leave anything in it that changes the next)
            if cp == PLAIN_CP:
                cp_obj = shared_cp
            else:
                cp_obj = copy.deepcopy(cp)
            ctrls[op['c']] = controller_nonMPI(num_procs=np_, controller_params=cp_obj, description=copy.deepcopy(desc))
            out.append(None)
            continue
        c = ctrls[op['c']]
        P = c.MS[0].levels[0].prob
        if op['src'] == 0:
            u0 = P.u_exact(0.0)
        else:
            u0 = values[op['src'] - 1]
        before = hash_value(u0)
        uend, stats = c.run(u0=u0, t0=op['a'] * DT, Tend=op['b'] * DT)
        values.append(uend)
        sh, ns = hash_stats(stats)
        kept_stats.append(stats)
        out.append(dict(sol=hash_value(uend), stats=sh, nstats=ns, input_unchanged=hash_value(u0) == before))
    # results handed out earlier must still be what they were
    k = 0
    for op, o in zip(hist, out):
        if o is not None:
            o['still'] = hash_value(values[k]) == o['sol']
            o['stats_still'] = hash_stats(kept_stats[k])[0] == o['stats']
            k += 1
    return out
