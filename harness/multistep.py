"""Runs of pySDC's real MultiStep sweeper classes (sweeper_classes/Multistep.py) on the Z_p data type with VARIABLE step
sizes, recorded for validation against spec/Multistep.tla.

A case = (class, coefficients, operator a, pre-filled cache of N points at arbitrary increasing times, sequence of step sizes).
Times and step sizes are multiples of 1/4, coefficients are small integers or dyadic, so every float product formed by the
code is exact and has a well-defined image in Z_p.  The coefficient tables of the shipped classes are written down HERE (from
the literature), not read from the classes, so that a changed table is a disagreement."""
import random

from harness import zp

# shipped classes with dyadic coefficients: name -> (alpha, beta) as exact fractions (num, den)
SHIPPED = {
    'AdamsBashforthExplicit1Step': ([(-1, 1)], [(1, 1), (0, 1)]),
    'BackwardEuler': ([(-1, 1)], [(0, 1), (1, 1)]),
    'AdamsMoultonImplicit1Step': ([(-1, 1)], [(1, 2), (1, 2)]),
}


def frac_img(nd, p):
    n, d = nd
    return (n % p) * pow(d, -1, p) % p


def random_case(rng, p, cid):
    kind = rng.choice(['generic1', 'generic2', 'generic2', 'generic3'] + list(SHIPPED))
    if kind in SHIPPED:
        alpha, beta = SHIPPED[kind]
    else:
        n = int(kind[-1])
        alpha = [(rng.randrange(-2, 3), 1) for _ in range(n)]
        beta = [(rng.randrange(-3, 4), rng.choice([1, 1, 2, 4])) for _ in range(n + 1)]
    n = len(alpha)
    t = rng.randrange(-4, 5)
    cache = []
    for _ in range(n):
        cache.append(dict(t=t, u=rng.randrange(p)))
        t += rng.choice([1, 2, 4, 8])
    return dict(id=cid, cls=kind, a=rng.randrange(p), alpha_frac=alpha, beta_frac=beta, cache0=cache,
                dtqs=[rng.choice([1, 2, 4, 8]) for _ in range(rng.randrange(1, 5))])


def run_case(case, p):
    """-> record in the format Multistep.tla reads (all numbers already images in Z_p / integers)"""
    from pySDC.core.step import Step
    from pySDC.core.errors import ProblemError
    from pySDC.implementations.sweeper_classes import Multistep as MS

    zp.set_modulus(p)
    if case['cls'] in SHIPPED:
        cls = getattr(MS, case['cls'])
    else:
        class cls(MS.MultiStep):
            alpha = [n / d for n, d in case['alpha_frac']]
            beta = [n / d for n, d in case['beta_frac']]
    desc = dict(problem_class=zp.ZpLinear, problem_params=dict(A=((case['a'],),)), sweeper_class=cls, sweeper_params={},
                level_params=dict(dt=0.25), step_params=dict(maxiter=1))
    S = Step(desc)
    L = S.levels[0]
    sw = L.sweep
    n = len(case['alpha_frac'])
    for ent in case['cache0']:
        u = zp.zmesh([ent['u']])
        sw.cache.update(ent['t'] / 4, u, L.prob.eval_f(u, ent['t'] / 4))
    rec = dict(id=case['id'], a=case['a'] % p, alpha=[frac_img(x, p) for x in case['alpha_frac']],
               beta=[frac_img(x, p) for x in case['beta_frac']],
               cache=[dict(t=e['t'], u=e['u'] % p, f=(case['a'] * e['u']) % p) for e in case['cache0']], steps=[])
    tq = case['cache0'][-1]['t']
    for dq in case['dtqs']:
        L.status.time = tq / 4
        L.params.dt = dq / 4
        L.u[0] = zp.zmesh(sw.cache.u[-1])
        L.status.unlocked = False
        sw.predict()
        try:
            sw.update_nodes()
        except ProblemError:
            rec['steps'].append(dict(dtq=dq, singular=True, u=0, f=0, uend=0, cache_t=[0] * n, cache_u=[0] * n))
            break
        sw.compute_end_point()
        sw.compute_residual()
        ct = []
        for t in sw.cache.t:
            q = t * 4
            assert q == int(q), f'cache time {t} is not a multiple of 1/4'
            ct.append(int(q))
        rec['steps'].append(dict(dtq=dq, singular=False, u=int(L.u[1].v[0]), f=int(L.f[1].v[0]), uend=int(L.uend.v[0]),
                                 cache_t=ct, cache_u=[int(u.v[0]) for u in sw.cache.u]))
        tq += dq
    return rec


def record(seed, p, count):
    rng = random.Random(seed)
    cases = [random_case(rng, p, i + 1) for i in range(count)]
    return cases, [run_case(c, p) for c in cases]


if __name__ == '__main__':
    import json
    import sys
    cs, rs = record(int(sys.argv[1]) if len(sys.argv) > 1 else 0, 7, 5)
    print(json.dumps(rs, indent=None))
