"""Replay of FieldsIO.tla behaviours on real files written by pySDC.helpers.fieldsIO (serial path).

A behaviour is the operation history exported by TLC.  Crashes inside a write are realised by performing the
write with the real code and cutting the file at the byte offset(s) the abstract crash point stands for
(sequential-append crash model: a crash leaves a prefix of what the write would have produced).
After every operation the file is read back through FieldsIO.fromFile and compared bit by bit with what the
model says a reader must see.
"""
import os
import subprocess
import sys

import numpy as np


def make_variant(rng):
    from pySDC.helpers.fieldsIO import DTYPES
    dt = rng.choice(sorted(DTYPES.keys()))
    dim = rng.choice([0, 0, 1, 2, 3])
    nvar = rng.randint(1, 6)
    sizes = [rng.randint(1, 4) for _ in range(dim)]
    return dict(dtype_id=dt, dim=dim, nvar=nvar, sizes=sizes, seed=rng.randint(0, 2 ** 31))


def _new_object(variant, path):
    from pySDC.helpers.fieldsIO import DTYPES, Scalar, Rectilinear
    dtype = DTYPES[variant['dtype_id']]
    r = np.random.RandomState(variant['seed'])
    if variant['dim'] == 0:
        o = Scalar(dtype, path)
        o.setHeader(nVar=variant['nvar'])
        hdr = dict(nVar=variant['nvar'])
    else:
        coords = [np.sort(r.uniform(-5, 5, size=n)) for n in variant['sizes']]
        o = Rectilinear(dtype, path)
        o.setHeader(nVar=variant['nvar'], coords=coords)
        hdr = dict(nVar=variant['nvar'], coords=coords)
    return o, dtype, hdr


def _field(variant, dtype, rid):
    r = np.random.RandomState((variant['seed'] + 7919 * rid) % (2 ** 31))
    shape = (variant['nvar'], *variant['sizes'])
    raw = r.bytes(int(np.prod(shape)) * np.dtype(dtype).itemsize)
    a = np.frombuffer(raw, dtype=dtype).copy().reshape(shape)
    # arbitrary bit patterns except NaNs (NaN payload comparison is done on bytes anyway)
    return a


def _layout(f, k):
    """the same array values in a different memory layout"""
    if f.ndim < 2 or k == 0:
        return f
    if k == 1:
        return np.asfortranarray(f)
    if k == 2:
        # a transposed view of the transposed copy: same shape and values, reversed strides
        return np.ascontiguousarray(f.T).T
    big = np.zeros(tuple(2 * n for n in f.shape), dtype=f.dtype)
    view = big[tuple(slice(None, None, 2) for _ in f.shape)]
    view[...] = f
    return view


def _time(rid):
    return float(np.float64(rid) * 0.37 - 1.25)


def offsets_for(k, total_abs, total_real, mode, rng):
    """real byte offsets realising 'k of total_abs abstract bytes written'"""
    if k <= 0:
        return [0]
    if k >= total_abs:
        return [total_real]
    # partial classes 1..total_abs-1 split the real partial offsets 1..total_real-1 in order
    partial = list(range(1, total_real))
    if not partial:
        return [0]
    ncls = total_abs - 1
    lo = (k - 1) * len(partial) // ncls
    hi = k * len(partial) // ncls
    cls = partial[lo:hi] or [partial[min(lo, len(partial) - 1)]]
    if mode == 'all':
        return cls
    picks = {cls[0], cls[-1], rng.choice(cls)}
    if 8 in cls:
        picks.add(8)  # time complete, field empty
    return sorted(picks)


def same_bits(a, b):
    return np.asarray(a).tobytes() == np.asarray(b).tobytes() and np.asarray(a).dtype == np.asarray(b).dtype


def check_reader(path, variant, hdr, dtype, written, reported, problems, where, newproc=False):
    from pySDC.helpers.fieldsIO import FieldsIO
    try:
        r = FieldsIO.fromFile(path)
    except Exception as e:  # noqa
        problems.append(f'{where}: fromFile failed on a file with complete header: {type(e).__name__}: {e}')
        return
    if r.dtype != dtype:
        problems.append(f'{where}: dtype {r.dtype} != {dtype}')
    if r.header['nVar'] != hdr['nVar']:
        problems.append(f'{where}: nVar differs')
    if 'coords' in hdr:
        if len(r.header['coords']) != len(hdr['coords']) or not all(same_bits(a, b) for a, b in zip(r.header['coords'], hdr['coords'])):
            problems.append(f'{where}: coords differ')
    n = r.nFields
    if len(r.times) != n:
        problems.append(f'{where}: len(times)={len(r.times)} but nFields={n}')
    if n != len(reported):
        problems.append(f'{where}: nFields={n}, model says {len(reported)} records {reported}')
        return
    times = r.times
    for i, rid in enumerate(reported):
        if rid == -1:
            problems.append(f'{where}: model says record {i} is garbage (incomplete record reported)')
            continue
        t_exp, f_exp = written[rid]
        t, f = r.readField(i)
        if not (np.float64(t).tobytes() == np.float64(t_exp).tobytes() and same_bits(f, f_exp)):
            problems.append(f'{where}: record {i} is not the data of write #{rid}')
        if np.float64(times[i]).tobytes() != np.float64(t_exp).tobytes():
            problems.append(f'{where}: times[{i}] wrong')
        if f.shape != f_exp.shape:
            problems.append(f'{where}: shape {f.shape} != {f_exp.shape}')
    if n > 0:
        t, f = r.readField(-1)
        rid = reported[-1]
        if rid != -1 and not same_bits(f, written[rid][1]):
            problems.append(f'{where}: readField(-1) is not the last record')
        try:
            r.readField(n)
            problems.append(f'{where}: readField({n}) beyond the last record did not fail')
        except AssertionError:
            pass
        except Exception as e:  # noqa
            problems.append(f'{where}: readField({n}) raised {type(e).__name__}')
    if newproc and n > 0:
        code = ("import sys,numpy as np;from pySDC.helpers.fieldsIO import FieldsIO;r=FieldsIO.fromFile(sys.argv[1]);"
                "import hashlib;h=hashlib.sha1();[h.update(np.float64(r.readField(i)[0]).tobytes()+r.readField(i)[1].tobytes()) "
                "for i in range(r.nFields)];print(r.nFields,h.hexdigest())")
        out = subprocess.run([sys.executable, '-c', code, path], capture_output=True, text=True,
                             env=dict(os.environ)).stdout.split()
        import hashlib
        h = hashlib.sha1()
        for rid in reported:
            if rid != -1:
                h.update(np.float64(written[rid][0]).tobytes() + written[rid][1].tobytes())
        if out != [str(n), h.hexdigest()]:
            problems.append(f'{where}: a new process reads different data: {out}')


def check_handle(o, written, reported, problems, where):
    """what a handler object that has been alive for a while reports must be what a fresh reader sees"""
    try:
        n = o.nFields
        times = o.times
    except Exception as e:  # noqa
        problems.append(f'{where}: {type(e).__name__}: {e}')
        return
    if n != len(reported) or len(times) != len(reported):
        problems.append(f'{where}: nFields={n}, len(times)={len(times)}, a fresh reader sees {len(reported)} records')
        return
    for i, rid in enumerate(reported):
        if rid == -1:
            continue
        t, f = o.readField(i)
        if not (np.float64(t).tobytes() == np.float64(written[rid][0]).tobytes() and same_bits(f, written[rid][1])):
            problems.append(f'{where}: record {i} is not the data of write #{rid}')
    if n > 0 and reported[-1] != -1:
        t, f = o.readField(-1)
        if not same_bits(f, written[reported[-1]][1]):
            problems.append(f'{where}: readField(-1) is not the last record')


def replay(hist, final, variant, workdir, H, R, rng, mode='pick', newproc=False):
    """returns list of problems (strings); several realisations (crash offsets) of one abstract behaviour"""
    from pySDC.helpers.fieldsIO import FieldsIO
    problems = []
    # choose offsets per crash event
    crash_idx = [i for i, e in enumerate(hist) if e['op'] == 'crash' and e['kind'] != 'idle']
    nreal = 0

    def run_with(choice):
        nonlocal nreal
        nreal += 1
        path = os.path.join(workdir, f'f{rng.randint(0, 10**9)}.pysdc')
        objs, dtype, hdr = {}, None, None
        written = {}
        FieldsIO.ALLOW_OVERWRITE = False
        last_rec = None
        try:
            for i, e in enumerate(hist):
                where = f'op#{i}:{e["op"]}'
                inflight = e['op'] == 'done' or (e['op'] == 'crash' and e['kind'] != 'idle')
                if os.path.exists(path) and e['hok'] and hdr is not None and not inflight:
                    check_reader(path, variant, hdr, dtype, written, list(e['pre']), problems, 'before ' + where)
                    for hh, o in objs.items():
                        if o is not None and getattr(o, 'initialized', False):
                            check_handle(o, written, list(e['pre']), problems, f'before {where} through live handler {hh}')
                op = e['op']
                if op == 'new':
                    objs[e['h']], dtype, hdr_new = _new_object(variant, path)
                    if hdr is None:
                        hdr = hdr_new
                elif op == 'allow':
                    FieldsIO.ALLOW_OVERWRITE = bool(e['v'])
                elif op == 'init':
                    before = open(path, 'rb').read() if os.path.exists(path) else None
                    try:
                        objs[e['h']].initialize()
                        if not e['ok']:
                            problems.append(f'{where}: existing file overwritten although overwriting is disabled')
                        written = {} if e['ok'] else written
                        last_rec = ('h', os.path.getsize(path))
                    except FileExistsError:
                        if e['ok']:
                            problems.append(f'{where}: FileExistsError although the model allows the initialisation')
                        if before is not None and open(path, 'rb').read() != before:
                            problems.append(f'{where}: refused initialisation changed the file')
                elif op == 'add':
                    rid = e['id']
                    t, f = _time(rid), _field(variant, dtype, rid)
                    written[rid] = (t, f)
                    # the field is a VALUE: the same values in another memory layout (Fortran order, an axis-permuted view, a
                    # strided view of a larger array) must give the same file
                    objs[e['h']].addField(t, _layout(f, (variant['seed'] + rid) % 4))
                    last_rec = ('r', 8 + f.nbytes)
                elif op == 'done':
                    pass
                elif op == 'crash':
                    if e['kind'] != 'idle' and last_rec is not None:
                        kind, real_total = last_rec
                        j = choice[i]
                        size = os.path.getsize(path)
                        with open(path, 'r+b') as fh:
                            fh.truncate(size - real_total + j)
                    objs = {}
                elif op == 'reopen':
                    try:
                        o2 = FieldsIO.fromFile(path)
                        if e['ok']:
                            objs[e['h']] = o2
                        else:
                            if o2.nFields > 0:
                                problems.append(f'{where}: file with an incomplete header reports {o2.nFields} fields')
                            objs[e['h']] = None
                    except Exception as ex:  # noqa
                        if e['ok']:
                            problems.append(f'{where}: fromFile failed: {type(ex).__name__}: {ex}')
                        objs[e['h']] = None
                elif op == 'close':
                    objs[e['h']] = None
            if os.path.exists(path) and final['headerok'] and hdr is not None:
                check_reader(path, variant, hdr, dtype, written, list(final['reported']), problems, 'at the end',
                             newproc=newproc)
        finally:
            FieldsIO.ALLOW_OVERWRITE = False
            if os.path.exists(path):
                os.remove(path)

    # offsets: real sizes need a dry computation of header / record sizes
    o, dtype, hdr = _new_object(variant, os.path.join(workdir, 'dry'))
    hsize = o.hSize
    rsize = 8 + int(np.prod((variant['nvar'], *variant['sizes']))) * np.dtype(dtype).itemsize
    per_crash = []
    for i in crash_idx:
        e = hist[i]
        if e['kind'] == 'h':
            per_crash.append(offsets_for(e['written'], H, hsize, mode, rng))
        else:
            per_crash.append(offsets_for(e['written'], R, rsize, mode, rng))
    if not crash_idx:
        run_with({})
    else:
        import itertools
        combos = list(itertools.product(*per_crash))
        if len(combos) > 40 and mode != 'all':
            combos = rng.sample(combos, 40)
        elif len(combos) > 400:
            combos = rng.sample(combos, 400)
        for c in combos:
            run_with(dict(zip(crash_idx, c)))
    return problems, nreal
