"""Run the real controller with a HookSets.tla configuration and report which per-step quantities were recorded."""
import numpy as np

TYPES = ['u', 'dt', 'restart', 'work_rhs', 'k', 'error_embedded_estimate', 'error_embedded_estimate_post_iteration', 'niter', 'residual_post_step']


def classes():
    from pySDC.implementations.hooks.log_solution import LogSolution
    from pySDC.implementations.hooks.log_step_size import LogStepSize
    from pySDC.implementations.hooks.log_restarts import LogRestarts
    from pySDC.implementations.hooks.log_work import LogWork, LogSDCIterations
    from pySDC.implementations.hooks.log_embedded_error_estimate import LogEmbeddedErrorEstimate, LogEmbeddedErrorEstimatePostIter
    from pySDC.implementations.hooks.default_hook import DefaultHooks
    from pySDC.implementations.hooks.log_timings import CPUTimings
    return {'Sol': LogSolution, 'StepSize': LogStepSize, 'Restarts': LogRestarts, 'Work': LogWork, 'K': LogSDCIterations,
            'Err': LogEmbeddedErrorEstimate, 'ErrPostIter': LogEmbeddedErrorEstimatePostIter, 'Default': DefaultHooks, 'Timings': CPUTimings}


def run(case):
    from pySDC.implementations.controller_classes.controller_nonMPI import controller_nonMPI
    from pySDC.implementations.problem_classes.TestEquation_0D import testequation0d
    from pySDC.implementations.sweeper_classes.generic_implicit import generic_implicit
    from pySDC.helpers.stats_helper import get_sorted
    C = classes()
    cc = {}
    if case['ctrl'] == 'errest':
        from pySDC.implementations.convergence_controller_classes.estimate_embedded_error import EstimateEmbeddedError
        cc[EstimateEmbeddedError] = {}
    elif case['ctrl'] == 'adapt':
        from pySDC.implementations.convergence_controller_classes.adaptivity import Adaptivity
        cc[Adaptivity] = dict(e_tol=1e-3)
    desc = dict(problem_class=testequation0d, problem_params=dict(lambdas=np.array([-1.0 + 1.0j]), u0=1.0), sweeper_class=generic_implicit,
                sweeper_params=dict(num_nodes=3, quad_type='RADAU-RIGHT', QI='IE'), level_params=dict(dt=0.125, restol=-1.0),
                step_params=dict(maxiter=3), convergence_controllers=cc)
    hook_list = [C[h] for h in case['user']]
    c = controller_nonMPI(num_procs=1, controller_params=dict(logger_level=50, dump_setup=False, mssdc_jac=False, hook_class=hook_list if len(hook_list) != 1 else hook_list[0]),
                          description=desc)
    u, stats = c.run(u0=c.MS[0].levels[0].prob.u_exact(0.0), t0=0.0, Tend=0.375)
    name = {v: k for k, v in C.items()}
    registered = [name.get(type(h), type(h).__name__) for h in c.hooks]
    nacc = len(get_sorted(stats, type='niter', recomputed=False))
    counts = {T: len(get_sorted(stats, type=T, recomputed=False)) for T in TYPES}
    return dict(registered=registered, accepted=nacc, counts=counts)


def compare(case, real):
    probs = []
    if real['registered'] != list(case['registered']):
        probs.append(f"registered: {real['registered']}, expected {list(case['registered'])}")
    for T in TYPES:
        want = real['accepted'] if T in case['expected'] else 0
        if T == 'error_embedded_estimate_post_iteration' and T in case['expected']:
            if real['counts'][T] < real['accepted']:
                probs.append(f"records: {real['counts'][T]} records of {T} for {real['accepted']} accepted steps")
            continue
        if real['counts'][T] != want:
            probs.append(f"records: {real['counts'][T]} records of {T} for {real['accepted']} accepted steps, expected {want}")
    return probs
