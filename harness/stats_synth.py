"""Materialise a StatsHelpers.tla dictionary with real pySDC statistics keys and compare the real helper functions
(filter_stats, sort_stats, get_sorted, get_list_of_types) with the results the specification prints."""
SCALES = [(0.0, 1.0), (1024.0, 2.0 ** -10), (1.0e6, 1.0e-3), (-3.0, 0.125)]  # (t0, length of a tick): ticks stay distinct floats


def compare(case, scale):
    from pySDC.core.hooks import Entry
    from pySDC.helpers.stats_helper import filter_stats, sort_stats, get_sorted, get_list_of_types
    t0, dt = scale
    tm = lambda k: t0 + k * dt  # noqa
    stats = {}
    back = {}
    for e in case['dict']:
        key = Entry(process=e['process'], process_sweeper=None, time=tm(e['time']), level=0, iter=e['iter'], sweep=1, type=e['type'],
                    num_restarts=e['nrest'])
        stats[key] = bool(e['value']) if e['type'] == '_recomputed' else e['value']
        back[key] = e
    q = case['query']
    kw = {}
    if q['type'] != '*':
        kw['type'] = q['type']
    if q['time'] != -1:
        kw['time'] = tm(q['time'])
    if q['iter'] != -1:
        kw['iter'] = q['iter']
    if q['nrest'] != -1:
        kw['num_restarts'] = q['nrest']
    if q['process'] != -1:
        kw['process'] = q['process']
    if q['recomputed'] == 'false':
        kw['recomputed'] = False
    before = dict(stats)
    probs = []
    got = filter_stats(stats, **kw)
    if stats != before:
        probs.append('filter: the dictionary passed in was modified')
    canon = lambda e: (e['type'], e['time'], e['iter'], e['nrest'], e['process'], e['value'])  # noqa
    gset = sorted(canon(back[k]) for k in got) if all(k in back for k in got) else None
    want = sorted(canon(e) for e in case['filtered'])
    if gset is None:
        probs.append('filter: returned a key that is not in the dictionary')
    elif gset != want:
        probs.append(f'filter: returned {gset}, expected {want}')
    elif any(got[k] != stats[k] for k in got):
        probs.append('filter: a value was changed')
    attr = {'time': 'time', 'iter': 'iter', 'process': 'process', 'nrest': 'num_restarts'}[q['sortby']]
    for name, lst in (('sort_stats', sort_stats(got, sortby=attr)), ('get_sorted', get_sorted(stats, sortby=attr, **kw))):
        items = [x[0] for x in lst]
        if any(items[i] > items[i + 1] for i in range(len(items) - 1)):
            probs.append(f'sort: {name} is not ascending in {attr}: {items}')
        wantp = sorted(((tm(it) if q['sortby'] == 'time' else it), (bool(v) if kk['type'] == '_recomputed' else v)) for it, v, kk in case['sorted'])
        if sorted((a, b) for a, b in lst) != wantp:
            probs.append(f'sort: {name} returned {sorted(lst)}, expected {wantp}')
    if sorted(get_list_of_types(stats)) != sorted(case['types']):
        probs.append(f'types: {sorted(get_list_of_types(stats))}, expected {sorted(case["types"])}')
    return probs
