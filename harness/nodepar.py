"""Node-parallel sweepers (generic_implicit_MPI, imex_1st_order_MPI) and base_transfer_MPI on the simulated MPI, over Z_p.
One simulated rank per collocation node runs the REAL classes; the per-rank results are assembled into the vocabulary of
SdcAlgebra.tla (same shape as harness/zp_cases.run_sweep_case / run_transfer_case), so that
  - TLC validates them against the model (TraceSdcAlgebra: the node-parallel sweep is the sweep with the DIAGONAL of QI),
  - they are compared for equality with the real serial classes on the same instance,
  - the event log of the collectives is validated against NodeParallel.tla (TraceNodeParallel).
Every rank knows only what a rank of a real job knows: u[0], f[0] and the values at ITS node; the other nodes hold poison."""
import os
import sys

_SIM = os.path.join(os.path.dirname(os.path.abspath(__file__)), 'simmpi')
if _SIM not in sys.path:
    sys.path.insert(0, _SIM)

import numpy as np  # noqa: E402

from harness import zp, zp_cases  # noqa: E402
from pySDC.core.errors import ProblemError  # noqa: E402
from pySDC.core.step import Step  # noqa: E402


def mpi_sweeper_class(kind):
    from pySDC.implementations.sweeper_classes.generic_implicit_MPI import generic_implicit_MPI
    from pySDC.implementations.sweeper_classes.imex_1st_order_MPI import imex_1st_order_MPI
    return {'impl': generic_implicit_MPI, 'imex': imex_1st_order_MPI}[kind]


def _poison(n, salt):
    return zp.zmesh([(salt + 1 + i) % zp.P for i in range(n)])


def load_rank(lvl, u0, U, tau, rank, marks=None):
    """what rank `rank` holds: u[0], f[0], its own node; poison elsewhere"""
    P_ = lvl.prob
    lvl.status.time = 0.0
    lvl.u[0] = zp.zmesh(list(u0))
    lvl.f[0] = P_.eval_f(lvl.u[0], 0.0)
    for m, um in enumerate(U):
        if m == rank:
            lvl.u[m + 1] = zp.zmesh(list(um))
            lvl.f[m + 1] = P_.eval_f(lvl.u[m + 1], lvl.time + lvl.dt * lvl.sweep.coll.nodes[m])
        else:
            lvl.u[m + 1] = _poison(len(um), m)
            lvl.f[m + 1] = P_.eval_f(lvl.u[m + 1], 0.0)
    if tau:
        # tau: own entry is what matters; the other entries must only be "present"
        lvl.tau = [zp.zmesh(list(t)) if m == rank else _poison(len(t), m + 3) for m, t in enumerate(tau)]
    lvl.status.unlocked = True


def _opmark(comm, name):
    """program marker in the event log (which sweeper operation the following collectives belong to)"""
    from mpi4py import MPI
    w = MPI._tls.world
    with w.lock:
        w.log(MPI._tls.rank, 'op', name=name, cr=comm.rank)


def run_sweep_case_mpi(inst, p, sched_seed=0, policy='random'):
    """returns (out, events, info) ; out has the shape of zp_cases.run_sweep_case"""
    from mpi4py import MPI
    zp.set_modulus(p)
    zp.install_generators()
    kind = inst['kind']
    M = inst['M']
    pc, pp, swp, key = zp_cases.level_description(inst, kind)
    if kind == 'imex':
        swp['QE'] = 'PIC'

    def target(comm):
        desc = dict(problem_class=pc, problem_params=pp, sweeper_class=mpi_sweeper_class(kind), sweeper_params=dict(swp, comm=comm),
                    level_params=dict(dt=zp_cases.dt_float(inst['dt'])), step_params=dict(maxiter=1))
        S = Step(desc)
        L = S.levels[0]
        r = comm.rank
        load_rank(L, inst['u0'], inst['U'], inst['tau'], r)
        o = {}
        _opmark(comm, 'integrate')
        o['integrate'] = L.sweep.integrate().tolist()
        res = {}
        for rt in ('full_abs', 'last_abs'):
            L.params.residual_type = rt
            _opmark(comm, 'res_' + rt[:4])
            L.sweep.compute_residual()
            res[rt] = int(L.status.residual)
        o['res'] = [res['full_abs'], res['last_abs'], int(abs(L.u[0]))]
        if abs(L.u[0]) > 0:
            L.params.residual_type = 'full_rel'
            _opmark(comm, 'res_full')
            L.sweep.compute_residual()
            o['full_rel_ok'] = L.status.residual == res['full_abs'] / abs(L.u[0])
            L.params.residual_type = 'last_rel'
            _opmark(comm, 'res_last')
            L.sweep.compute_residual()
            o['last_rel_ok'] = L.status.residual == res['last_abs'] / abs(L.u[0])
        L.params.residual_type = 'full_abs'
        try:
            _opmark(comm, ('end_copy' if (inst['rightnode'] and not inst['collupdate']) else ('end_coll_tau' if inst['tau'] else 'end_coll')))
            L.sweep.compute_end_point()
            o['uend'] = L.uend.tolist()
        except NotImplementedError as e:
            o['uend'] = None
            o['uend_error'] = str(e)[:80]
        try:
            _opmark(comm, 'update')
            L.sweep.update_nodes()
            o['defined'] = True
            o['mine'] = L.u[r + 1].tolist()
            fresh = L.prob.eval_f(L.u[r + 1], L.time + L.dt * L.sweep.coll.nodes[r])
            fm = L.f[r + 1]
            o['f_fresh'] = (fresh.impl == fm.impl and fresh.expl == fm.expl) if kind == 'imex' else (fresh == fm)
            o['u0_kept'] = L.u[0].tolist() == list(inst['u0'])
        except (ProblemError, ValueError, ZeroDivisionError):
            o['defined'] = False
        return o

    try:
        results, w, errors = MPI.run_world(M, target, seed=sched_seed, policy=policy, timeout=60)
    finally:
        zp.REG.pop(key, None)
    return assemble_sweep(inst, results, w, errors)


def assemble_sweep(inst, results, w, errors):
    M = inst['M']
    info = dict(deadlock=bool(w.deadlock), failed=w.failed, errors=[f'{type(e).__name__}: {e}'[:200] if e is not None else None for e in errors],
                agree=[])
    if any(r is None for r in results):
        # a rank whose solve is singular leaves the others blocked in the next collective: legal outcome "not defined" only if
        # the serial sweep is undefined as well (decided by the caller); report what we have
        return None, w.events, info
    out = {}
    out['integrate'] = [results[m]['integrate'] for m in range(M)]
    for k in ('res', 'uend'):
        vals = [results[m][k] for m in range(M)]
        if any(v != vals[0] for v in vals):
            info['agree'].append(k)
        out[k] = vals[0]
    for k in ('full_rel_ok', 'last_rel_ok'):
        if k in results[0]:
            out[k] = all(results[m].get(k, False) for m in range(M))
    out['defined'] = all(results[m]['defined'] for m in range(M))
    if out['defined']:
        out['sweep'] = [results[m]['mine'] for m in range(M)]
        out['f_fresh'] = all(results[m]['f_fresh'] for m in range(M))
        out['u0_kept'] = all(results[m]['u0_kept'] for m in range(M))
    else:
        out['sweep'] = []
    return out, w.events, info


class ZpBaseTransferMPI(object):
    """built lazily (needs the simulated mpi4py on the path): base_transfer_MPI with Z_p node-to-node matrices"""
    _cls = None

    @classmethod
    def get(cls):
        if cls._cls is None:
            from pySDC.implementations.transfer_classes.BaseTransferMPI import base_transfer_MPI

            class _T(base_transfer_MPI):
                def __init__(self, fine_level, coarse_level, base_transfer_params, space_transfer_class, space_transfer_params):
                    p = dict(base_transfer_params)
                    Rc, Pc = p.pop('Rc'), p.pop('Pc')
                    super().__init__(fine_level, coarse_level, p, space_transfer_class, space_transfer_params)
                    self.Rcoll = np.array(Rc, dtype=float)
                    self.Pcoll = np.array(Pc, dtype=float)

            cls._cls = _T
        return cls._cls


def run_transfer_case_mpi(inst, p, sched_seed=0, policy='random'):
    """two levels with the same number of nodes, one rank per node; shape of zp_cases.run_transfer_case"""
    from mpi4py import MPI
    zp.set_modulus(p)
    zp.install_generators()
    kind = inst['kind']
    G, T = inst['G'], inst['T']
    M = inst['M']
    assert G['M'] == M
    pcF, ppF, swF, kF = zp_cases.level_description(inst, kind)
    pcG, ppG, swG, kG = zp_cases.level_description(G, kind)
    if kind == 'imex':
        swF['QE'] = swG['QE'] = 'PIC'

    def target(comm):
        sw = {k: ([swF[k], swG[k]] if swF[k] != swG[k] else swF[k]) for k in swF}
        sw['comm'] = comm
        desc = dict(problem_class=pcF, problem_params={k: [ppF[k], ppG[k]] for k in ppF}, sweeper_class=mpi_sweeper_class(kind),
                    sweeper_params=sw, level_params=dict(dt=zp_cases.dt_float(inst['dt'])), step_params=dict(maxiter=1),
                    base_transfer_class=ZpBaseTransferMPI.get(),
                    base_transfer_params=dict(Rc=[list(r) for r in T['Rc']], Pc=[list(r) for r in T['Pc']], finter=bool(inst.get('finter'))),
                    space_transfer_class=zp_cases.ZpSpaceTransfer, space_transfer_params=dict(Rs=[list(r) for r in T['Rs']], Ps=[list(r) for r in T['Ps']]))
        S = Step(desc)
        LF, LG = S.levels
        r = comm.rank
        load_rank(LF, inst['u0'], inst['U'], inst['tau'], r)
        LG.status.time = 0.0
        o = {}
        _opmark(comm, 'restrict_tau' if inst['tau'] else 'restrict')
        S.transfer(source=LF, target=LG)
        o['restricted'] = dict(u0=LG.u[0].tolist(), U=LG.u[r + 1].tolist(), tau=LG.tau[r].tolist(), Uold=LG.uold[r + 1].tolist())
        _opmark(comm, 'res_full')
        LG.sweep.compute_residual()
        o['coarse_res'] = int(LG.status.residual)
        try:
            _opmark(comm, 'update')
            LG.sweep.update_nodes()
            o['defined'] = True
        except (ProblemError, ValueError, ZeroDivisionError):
            o['defined'] = False
            return o
        o['coarse_swept'] = LG.u[r + 1].tolist()
        _opmark(comm, 'prolong')
        S.transfer(source=LG, target=LF)
        o['prolonged'] = LF.u[r + 1].tolist()
        fresh = LF.prob.eval_f(LF.u[r + 1], LF.time + LF.dt * LF.sweep.coll.nodes[r])
        fm = LF.f[r + 1]
        o['f_mine'] = (fm.impl.tolist(), fm.expl.tolist()) if kind == 'imex' else (fm.tolist(), [0] * inst['n'])
        # with prolong_f the stored right-hand sides are interpolated, not re-evaluated
        o['f_fresh'] = bool(inst.get('finter')) or ((fresh.impl == fm.impl and fresh.expl == fm.expl) if kind == 'imex' else (fresh == fm))
        o['fine_u0_kept'] = LF.u[0].tolist() == list(inst['u0'])
        return o

    try:
        results, w, errors = MPI.run_world(M, target, seed=sched_seed, policy=policy, timeout=60)
    finally:
        zp.REG.pop(kF, None)
        zp.REG.pop(kG, None)
    info = dict(deadlock=bool(w.deadlock), failed=w.failed, errors=[f'{type(e).__name__}: {e}'[:200] if e is not None else None for e in errors], agree=[])
    if any(r is None for r in results):
        return None, w.events, info
    out = {}
    u0s = [results[m]['restricted']['u0'] for m in range(M)]
    if any(u != u0s[0] for u in u0s):
        info['agree'].append('restricted.u0')
    out['restricted'] = dict(u0=u0s[0], U=[results[m]['restricted']['U'] for m in range(M)], tau=[results[m]['restricted']['tau'] for m in range(M)],
                             Uold=[results[m]['restricted']['Uold'] for m in range(M)])
    cr = [results[m]['coarse_res'] for m in range(M)]
    if any(c != cr[0] for c in cr):
        info['agree'].append('coarse_res')
    out['coarse_res'] = cr[0]
    out['defined'] = all(results[m]['defined'] for m in range(M))
    out['finter'] = bool(inst.get('finter'))
    if out['defined']:
        out['coarse_swept'] = [results[m]['coarse_swept'] for m in range(M)]
        out['prolonged'] = [results[m]['prolonged'] for m in range(M)]
        out['f_impl'] = [results[m]['f_mine'][0] for m in range(M)]
        out['f_expl'] = [results[m]['f_mine'][1] for m in range(M)]
        out['fine_u0_kept'] = all(results[m]['fine_u0_kept'] for m in range(M))
        out['f_fresh'] = all(results[m]['f_fresh'] for m in range(M))
    return out, w.events, info


def normalise_events(events):
    """fixed record shape for TraceNodeParallel"""
    out = []
    for e in events:
        if e['k'] not in ('op', 'coll', 'coll_done', 'coll_mismatch', 'deadlock'):
            continue
        out.append(dict(k=e['k'], r=int(e['r']), cr=int(e.get('cr', -1)), comm=int(e.get('comm', 0)), idx=int(e.get('idx', -1)),
                        op=str(e.get('op', '-')), root=int(e.get('root', -1)), size=int(e.get('size', 0)), name=str(e.get('name', '-'))))
    return out


# ---------------------------------------------------------------------------------------------------------
# complete runs: controller_nonMPI on every rank, node-parallel sweeper (and base_transfer_MPI) underneath


def diag_config(cfg):
    """make a zp_runs configuration admissible for the node-parallel classes: same number of nodes on all levels,
    diagonal implicit preconditioner, Picard explicit part; returns None if the kind has no MPI sweeper"""
    import copy
    if cfg['kind'] not in ('impl', 'imex'):
        return None
    c = copy.deepcopy(cfg)
    M = c['levels'][0]['M']
    P = c['P']
    for L in c['levels']:
        if L['M'] != M:
            # square the coefficient tables to M x M (deterministically from what is there)
            old = L['M']
            L['Q'] = [[L['Q'][i % old][j % old] for j in range(M)] for i in range(M)]
            L['QI'] = [[L['QI'][i % old][j % old] for j in range(M)] for i in range(M)]
            L['M'] = M
            L['w'] = list(L['Q'][M - 1])
            L['tn'] = [0] * M
        L['QI'] = [[L['QI'][i][j] if i == j else 0 for j in range(M)] for i in range(M)]
        L['QE'] = [[0] * M for _ in range(M)]
        L['w'] = list(L['Q'][M - 1])
    for t in c['transfers']:
        Rc = [[(t['Rc'][i % len(t['Rc'])][j % len(t['Rc'][0])]) for j in range(M)] for i in range(M)]
        for row in Rc:
            row[-1] = (1 - sum(row[:-1])) % P
        Rc[-1] = [0] * (M - 1) + [1]
        t['Rc'] = Rc
        t['Pc'] = [[(t['Pc'][i % len(t['Pc'])][j % len(t['Pc'][0])]) for j in range(M)] for i in range(M)]
    return c


def _zp_description(cfg, comm=None):
    from harness.zp_cases import ZpBaseTransfer, ZpSpaceTransfer, level_description, sweeper_class, dt_float
    kind = cfg['kind']
    descs = [level_description(L, kind) for L in cfg['levels']]
    keys = [d[3] for d in descs]
    pc = descs[0][0]
    pp = {k: [d[1][k] for d in descs] for k in descs[0][1]}
    swp = {k: [d[2][k] for d in descs] for k in descs[0][2]}
    if comm is not None:
        swp['comm'] = comm
        if kind == 'imex':
            swp['QE'] = 'PIC'
    desc = dict(problem_class=pc, problem_params=pp, sweeper_class=mpi_sweeper_class(kind) if comm is not None else sweeper_class(kind),
                sweeper_params=swp, level_params=dict(dt=dt_float(cfg['levels'][0]['dt']), restol=0.5, nsweeps=list(cfg['nsweeps'])),
                step_params=dict(maxiter=cfg['maxiter']))
    if cfg['NL'] > 1:
        desc['base_transfer_class'] = ZpBaseTransferMPI.get() if comm is not None else ZpBaseTransfer
        desc['base_transfer_params'] = [dict(Rc=cfg['transfers'][0]['Rc'], Pc=cfg['transfers'][0]['Pc'])] + [dict(Rc=t['Rc'], Pc=t['Pc']) for t in cfg['transfers']]
        desc['space_transfer_class'] = ZpSpaceTransfer
        desc['space_transfer_params'] = [dict(Rs=cfg['transfers'][0]['Rs'], Ps=cfg['transfers'][0]['Ps'])] + [dict(Rs=t['Rs'], Ps=t['Ps']) for t in cfg['transfers']]
    return desc, keys


def _make_hook(rank):
    from pySDC.core.hooks import Hooks

    class _H(Hooks):
        log = []

        def post_step(self, step, level_number):
            super().post_step(step, level_number)
            L = step.levels[0]
            _H.log.append(dict(slot=step.status.slot, t=float(L.time), u0=L.u[0].tolist(),
                               mine=L.u[rank + 1].tolist() if rank is not None else None,
                               U=[x.tolist() for x in L.u[1:]] if rank is None else None,
                               uend=L.uend.tolist(), niter=int(step.status.iter), res=int(L.status.residual)))

    return _H


def run_zp_serial(cfg):
    from pySDC.implementations.controller_classes.controller_nonMPI import controller_nonMPI
    from harness.zp_cases import dt_float
    zp.set_modulus(cfg['P'])
    zp.install_generators()
    desc, keys = _zp_description(cfg)
    H = _make_hook(None)
    try:
        cp = dict(logger_level=50, dump_setup=False, hook_class=[H], mssdc_jac=cfg['jac'])
        if cfg['pred']:
            cp['predict_type'] = cfg['pred']
        c = controller_nonMPI(num_procs=cfg['NP'], controller_params=cp, description=desc)
        dtf = dt_float(cfg['levels'][0]['dt'])
        uend, stats = c.run(u0=zp.zmesh(list(cfg['u_init'])), t0=0.0, Tend=dtf * cfg['nsteps'])
        return dict(exc=None, steps=sorted(H.log, key=lambda s: (s['t'], s['slot'])), ret=uend.tolist())
    except Exception as e:  # noqa
        return dict(exc=type(e).__name__, msg=str(e)[:200], steps=sorted(H.log, key=lambda s: (s['t'], s['slot'])))
    finally:
        for k in keys:
            zp.REG.pop(k, None)


def run_zp_nodepar(cfg, sched_seed=0, policy='random'):
    from mpi4py import MPI
    from pySDC.implementations.controller_classes.controller_nonMPI import controller_nonMPI
    from harness.zp_cases import dt_float
    zp.set_modulus(cfg['P'])
    zp.install_generators()
    M = cfg['levels'][0]['M']
    allkeys = []

    def target(comm):
        desc, keys = _zp_description(cfg, comm=comm)
        allkeys.extend(keys)
        H = _make_hook(comm.rank)
        cp = dict(logger_level=50, dump_setup=False, hook_class=[H], mssdc_jac=cfg['jac'])
        if cfg['pred']:
            cp['predict_type'] = cfg['pred']
        c = controller_nonMPI(num_procs=cfg['NP'], controller_params=cp, description=desc)
        dtf = dt_float(cfg['levels'][0]['dt'])
        try:
            uend, stats = c.run(u0=zp.zmesh(list(cfg['u_init'])), t0=0.0, Tend=dtf * cfg['nsteps'])
        finally:
            pass
        return dict(steps=sorted(H.log, key=lambda s: (s['t'], s['slot'])), ret=uend.tolist())

    try:
        results, w, errors = MPI.run_world(M, target, seed=sched_seed, policy=policy, timeout=120)
    finally:
        for k in allkeys:
            zp.REG.pop(k, None)
    out = dict(exc=None, deadlock=bool(w.deadlock), failed=w.failed, events=w.events, agree=[])
    errs = [e for e in errors if e is not None]
    if errs:
        real = [e for e in errs if type(e).__name__ != 'Deadlock']
        e = (real or errs)[0]
        out['exc'] = type(e).__name__
        out['msg'] = str(e)[:300]
        return out
    n = len(results[0]['steps'])
    if any(len(r['steps']) != n for r in results):
        out['agree'].append('number_of_steps')
        return out
    steps = []
    for i in range(n):
        s0 = results[0]['steps'][i]
        for k in ('slot', 't', 'u0', 'uend', 'niter', 'res'):
            if any(r['steps'][i][k] != s0[k] for r in results):
                out['agree'].append(k)
        steps.append(dict(slot=s0['slot'], t=s0['t'], u0=s0['u0'], mine=None, U=[results[m]['steps'][i]['mine'] for m in range(M)],
                          uend=s0['uend'], niter=s0['niter'], res=s0['res']))
    if any(r['ret'] != results[0]['ret'] for r in results):
        out['agree'].append('ret')
    out['steps'] = steps
    out['ret'] = results[0]['ret']
    return out


# ---- float problems ----------------------------------------------------------------------------------------

def float_description(cfg, comm=None):
    from pySDC.implementations.problem_classes.TestEquation_0D import testequation0d
    from pySDC.implementations.problem_classes.HeatEquation_ND_FD import heatNd_unforced, heatNd_forced
    from pySDC.implementations.sweeper_classes.generic_implicit import generic_implicit
    from pySDC.implementations.sweeper_classes.imex_1st_order import imex_1st_order
    from pySDC.implementations.transfer_classes.TransferMesh import mesh_to_mesh
    NL = cfg['NL']
    M = cfg['M']
    if cfg['problem'] == 'test':
        pc, pp = testequation0d, dict(lambdas=np.array([-1.0, -5.0 + 1j, -0.2j]), u0=1.0)
        assert NL == 1
    elif cfg['problem'] == 'heat':
        pc, pp = heatNd_unforced, dict(nu=0.1, freq=2, nvars=[31, 15][:NL] if NL > 1 else 31, bc='dirichlet-zero')
    else:
        pc, pp = heatNd_forced, dict(nu=0.1, freq=2, nvars=[31, 15][:NL] if NL > 1 else 31, bc='dirichlet-zero')
    imex = cfg['problem'] == 'heat_forced'
    swp = dict(num_nodes=M, quad_type=cfg.get('quad', 'RADAU-RIGHT'), QI=cfg.get('QI', 'MIN-SR-S'), do_coll_update=cfg.get('collupdate', False),
               initial_guess=cfg.get('guess', 'spread'))
    if imex:
        swp['QE'] = 'PIC'
    if comm is None:
        sc = imex_1st_order if imex else generic_implicit
    else:
        sc = mpi_sweeper_class('imex' if imex else 'impl')
        swp['comm'] = comm
    desc = dict(problem_class=pc, problem_params=pp, sweeper_class=sc, sweeper_params=swp,
                level_params=dict(dt=cfg['dt'], restol=cfg.get('restol', 1e-9), residual_type=cfg.get('residual_type', 'full_abs'),
                                  nsweeps=cfg.get('nsweeps', 1)),
                step_params=dict(maxiter=cfg.get('maxiter', 12)))
    if NL > 1:
        desc['space_transfer_class'] = mesh_to_mesh
        desc['space_transfer_params'] = dict(rorder=2, iorder=2)
        if comm is not None:
            from pySDC.implementations.transfer_classes.BaseTransferMPI import base_transfer_MPI
            desc['base_transfer_class'] = base_transfer_MPI
        if cfg.get('finter'):
            desc['base_transfer_params'] = dict(finter=True)
    return desc


def _float_hook():
    from pySDC.core.hooks import Hooks

    class _H(Hooks):
        log = []

        def post_iteration(self, step, level_number):
            super().post_iteration(step, level_number)
            L = step.levels[0]
            _H.log.append(('it', float(L.time), int(step.status.iter), float(L.status.residual)))

        def post_step(self, step, level_number):
            super().post_step(step, level_number)
            L = step.levels[0]
            _H.log.append(('step', float(L.time), int(step.status.iter), np.array(L.uend, copy=True).ravel().tolist()
                           if not np.iscomplexobj(L.uend) else [complex(x).real for x in np.asarray(L.uend).ravel()] + [complex(x).imag for x in np.asarray(L.uend).ravel()]))

    return _H


def run_float(cfg, comm=None):
    from pySDC.implementations.controller_classes.controller_nonMPI import controller_nonMPI
    H = _float_hook()
    desc = float_description(cfg, comm=comm)
    c = controller_nonMPI(num_procs=cfg.get('NP', 1), controller_params=dict(logger_level=50, dump_setup=False, hook_class=[H], mssdc_jac=cfg.get('jac', True)),
                          description=desc)
    P = c.MS[0].levels[0].prob
    uend, stats = c.run(u0=P.u_exact(0.0), t0=0.0, Tend=cfg['dt'] * cfg['nsteps'])
    u = np.asarray(uend).ravel()
    return dict(log=H.log, ret=[float(x.real) for x in u] + [float(x.imag) for x in u])


def run_float_nodepar(cfg, sched_seed=0, policy='random'):
    from mpi4py import MPI
    results, w, errors = MPI.run_world(cfg['M'], lambda comm: run_float(cfg, comm=comm), seed=sched_seed, policy=policy, timeout=180)
    out = dict(exc=None, deadlock=bool(w.deadlock), failed=w.failed, events=w.events)
    errs = [e for e in errors if e is not None]
    if errs:
        real = [e for e in errs if type(e).__name__ != 'Deadlock']
        e = (real or errs)[0]
        out['exc'] = type(e).__name__
        out['msg'] = str(e)[:300]
        return out
    out['ranks'] = results
    return out


def compare_float(ser, par, rtol=1e-9, atol=1e-12):
    """differences between the serial run and every rank of the node-parallel run"""
    d = []

    def close(a, b):
        return len(a) == len(b) and all(abs(x - y) <= atol + rtol * max(abs(x), abs(y)) for x, y in zip(a, b))

    for r, res in enumerate(par['ranks']):
        if len(res['log']) != len(ser['log']):
            d.append(('iteration_counts', f'rank {r}: {len(res["log"])} log records / serial {len(ser["log"])}'))
            continue
        for a, b in zip(ser['log'], res['log']):
            if a[:3] != b[:3]:
                d.append(('iteration_counts', f'rank {r}: {b[:3]} / serial {a[:3]}'))
                break
            if a[0] == 'it' and not close([a[3]], [b[3]]) and not (abs(a[3]) < 1e-11 and abs(b[3]) < 1e-11):
                d.append(('residuals', f'rank {r}: {b} / serial {a}'))
                break
            if a[0] == 'step' and not close(a[3], b[3]):
                d.append(('step_values', f'rank {r}: step at {a[1]}'))
                break
        if not close(ser['ret'], res['ret']):
            d.append(('returned_value', f'rank {r}'))
    return d
