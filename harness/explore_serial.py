"""Exhaustive / sampled exploration of the oracle choice tree of the REAL controller.

Every call of the scripted oracle is a choice point.  A run is executed with a script prefix; beyond the prefix the
oracle takes the first option and remembers that it did so.  After the run, every position beyond the prefix spawns
one sibling per alternative option.  Each leaf of the choice tree (= complete behaviour of the real code for one
oracle) is therefore executed exactly once.
"""
import itertools
import multiprocessing as mp
import os
import random
import sys

HERE = os.path.dirname(os.path.abspath(__file__))
sys.path.insert(0, os.path.dirname(HERE))


def oracle_options(res=(True, False), rs=(False,), dtm=(0,), fd=(False,), fc=(False,)):
    opts = []
    for a, b, c, d, e in itertools.product(res, rs, dtm, fd, fc):
        opts.append(dict(res=a, rs=b, dtm=c, fd=d, fc=e))
    return opts


def _work(args):
    cfg, prefix, default, tid, dtn_rel = args
    from harness.drive_serial import run_one
    if dtn_rel:
        # dtn options are multiplier codes relative to the current step size: resolve them while running
        from harness import rec as _rec

        class _Dyn(dict):
            pass
    r = run_one(cfg, [dict(o) for o in prefix], tid=tid, default=default)
    return r


def explore(cfg, options, pool, max_runs=None, seed=0, max_len=60):
    """returns list of run dicts (each with .script = complete oracle script)"""
    rng = random.Random(seed)
    default = options[0]
    pending = [[]]
    done = []
    tid = 0
    truncated = False
    while pending:
        if max_runs is not None and len(done) + len(pending) > max_runs:
            rng.shuffle(pending)
            pending = pending[: max(0, max_runs - len(done))]
            truncated = True
            if not pending:
                break
        jobs = []
        for p in pending:
            tid += 1
            jobs.append((cfg, p, default, tid, False))
        results = pool.map(_work, jobs, chunksize=max(1, len(jobs) // (4 * (pool._processes or 1))))
        nxt = []
        for (cfg_, prefix, _, _, _), r in zip(jobs, results):
            done.append(r)
            full = r['script'] or []
            if not truncated:
                for j in range(len(prefix), min(len(full), max_len)):
                    for alt in options[1:]:
                        nxt.append(full[:j] + [alt])
        pending = nxt
    return done, truncated


if __name__ == '__main__':
    from harness.drive_serial import DEFAULT_CFG
    cfg = dict(DEFAULT_CFG, NP=3, TEND=12, MAXITER=2)
    with mp.Pool(8) as pool:
        runs, trunc = explore(cfg, oracle_options(), pool)
    print(len(runs), trunc, max(len(r['script']) for r in runs))
