"""Materialise an abstract description (Description.tla) as a real pySDC description, build the real controller
(and run one block when the fault only shows at first use) and project what came out."""
import numpy as np

from pySDC.core.convergence_controller import ConvergenceController
from pySDC.core.space_transfer import SpaceTransfer

NVARS = [31, 15, 7, 3]
NODES = [5, 4, 3, 2]
DTS = [0.125, 0.25, 0.375, 0.5]


class FlexTransfer(SpaceTransfer):
    """injection / linear interpolation between nested Dirichlet grids, copy between equal grids"""

    def restrict(self, F):
        if self.fine_prob.nvars == self.coarse_prob.nvars:
            return type(F)(F)
        G = self.coarse_prob.dtype_u(self.coarse_prob.init)
        G[:] = np.asarray(F)[1::2]
        return G

    def prolong(self, G):
        if self.fine_prob.nvars == self.coarse_prob.nvars:
            return type(G)(G)
        F = self.fine_prob.dtype_u(self.fine_prob.init)
        g = np.concatenate([[0.0], np.asarray(G), [0.0]])
        F[1::2] = G
        F[0::2] = 0.5 * (g[:-1] + g[1:])
        return F


class D(ConvergenceController):
    def setup(self, controller, params, description, **kwargs):
        return {'control_order': 50, 'bar': 0, **super().setup(controller, params, description, **kwargs)}


class A(ConvergenceController):
    def setup(self, controller, params, description, **kwargs):
        return {'control_order': 10, 'foo': 0, **super().setup(controller, params, description, **kwargs)}

    def dependencies(self, controller, description, **kwargs):
        controller.add_convergence_controller(D, description=description, params={'bar': 1})


class E(ConvergenceController):
    def setup(self, controller, params, description, **kwargs):
        return {'control_order': 70, 'foo': 0, **super().setup(controller, params, description, **kwargs)}


class E2(E):
    """a sub-class of another requested controller"""

    def setup(self, controller, params, description, **kwargs):
        return {**super().setup(controller, params, description, **kwargs), 'control_order': params.get('control_order', 75)}


class B(ConvergenceController):
    def setup(self, controller, params, description, **kwargs):
        return {'control_order': -5, 'foo': 0, **super().setup(controller, params, description, **kwargs)}


CC = {'A': (A, 'foo'), 'B': (B, 'foo'), 'D': (D, 'bar'), 'E': (E, 'foo'), 'E2': (E2, 'foo')}


def shaped(sh, values, scalar):
    if sh == 0:
        return scalar
    return [values[i] for i in range(sh)]


def build(d):
    from pySDC.implementations.problem_classes.HeatEquation_ND_FD import heatNd_unforced
    from pySDC.implementations.sweeper_classes.generic_implicit import generic_implicit
    k = d['sh_nsw']
    pat = d['nswpat']
    if k == 0:
        nsw = 1 if pat == 'ones' else 2
    else:
        nsw = [2 if ((pat == 'last2' and i == k - 1) or (pat == 'first2' and i == 0)) else 1 for i in range(k)]
    desc = dict(
        problem_class=heatNd_unforced,
        problem_params=dict(nu=0.1, freq=2, bc='dirichlet-zero', nvars=shaped(d['sh_nvars'], NVARS, 31)),
        sweeper_class=generic_implicit,
        sweeper_params=dict(num_nodes=shaped(d['sh_nodes'], NODES, 3),
                            quad_type=d['quad'] if d.get('quadc', 'same') == 'same' else [d['quad'], d['quadc']], QI='IE'),
        level_params=dict(dt=shaped(d['sh_dt'], DTS, 0.1), nsweeps=nsw, restol=-1.0),
        step_params=dict(maxiter=1),
        space_transfer_class=FlexTransfer,
    )
    cp = dict(logger_level=50, dump_setup=False)
    if d['pred'] != 'none':
        cp['predict_type'] = d['pred']
    ccs = {}
    for name in ('A', 'B', 'D', 'E2', 'E'):  # A before D (see DESIGN: the outcome of a dependency depends on the dict order);
        # the sub-class E2 before its base class E
        for (n, order, par) in d['ccs']:
            if n == name:
                p = {}
                if order != 999:
                    p['control_order'] = order
                if par != -1:
                    p[CC[name][1]] = par
                ccs[CC[name][0]] = p
    if ccs:
        desc['convergence_controllers'] = ccs
    f = d['fault']
    if f == 'predict_key':
        cp['predict'] = True
    elif f in ('dtype_u', 'dtype_f'):
        desc[f] = object
    elif f.startswith('drop_') and f != 'drop_num_nodes':
        del desc[f[5:]]
    elif f == 'no_space_transfer':
        del desc['space_transfer_class']
    elif f == 'drop_num_nodes':
        del desc['sweeper_params']['num_nodes']
    elif f == 'bad_quad_type':
        desc['sweeper_params']['quad_type'] = 'BOGUS'
    elif f == 'bad_node_type':
        desc['sweeper_params']['node_type'] = 'BOGUS'
    elif f == 'bad_QI':
        desc['sweeper_params']['QI'] = 'BOGUS'
    elif f == 'bad_problem_param':
        desc['problem_params']['bogus_param'] = 1
    elif f == 'bad_initial_guess':
        desc['sweeper_params']['initial_guess'] = 'bogus'
    elif f.startswith('residual_type_'):
        desc['level_params']['residual_type'] = {'residual_type_max_abs': 'max_abs', 'residual_type_fullrel': 'fullrel', 'residual_type_abs': 'abs',
                                                 'residual_type_full_abs_rel': 'full_abs_rel'}[f]
    elif f == 'initial_guess_Spread':
        desc['sweeper_params']['initial_guess'] = 'Spread'  # names are case sensitive
    elif f == 'QI_lu':
        desc['sweeper_params']['QI'] = 'lu'
    elif f == 'bad_residual_type':
        desc['level_params']['residual_type'] = 'bogus'
    return desc, cp


def realise(d):
    """returns the projection of what the real code did"""
    import logging
    logging.disable(logging.CRITICAL)
    from pySDC.implementations.controller_classes.controller_nonMPI import controller_nonMPI
    desc, cp = build(d)
    out = dict(phase='none', err='none')
    try:
        c = controller_nonMPI(num_procs=d['np'], controller_params=cp, description=desc)
    except Exception as e:  # noqa
        out.update(phase='construct', err=type(e).__name__, msg=str(e)[:120])
        return out
    S = c.MS[0]
    out['nlevels'] = len(S.levels)
    out['levels'] = [dict(dt=L.params.dt, nsw=L.params.nsweeps, nodes=L.sweep.coll.num_nodes, nvars=int(np.prod(L.prob.nvars)))
                     for L in S.levels]
    out['same_on_all_steps'] = all([(L.params.dt, L.params.nsweeps, L.sweep.coll.num_nodes) for L in T.levels] ==
                                   [(L.params.dt, L.params.nsweeps, L.sweep.coll.num_nodes) for L in S.levels] for T in c.MS)
    out['controllers'] = []
    for i in c.convergence_controller_order:
        C = c.convergence_controllers[i]
        name = type(C).__name__
        par = C.params.__dict__.get('foo', C.params.__dict__.get('bar', -1))
        out['controllers'].append([name, int(C.params.control_order), int(par)])
    try:
        f = d['fault']
        if f == 'set_status_attr':
            S.status.bogus_attribute = 1
        elif f == 'set_level_param_attr':
            S.levels[0].params.bogus_attribute = 1
        elif f == 'set_readonly_param':
            S.levels[0].prob.nvars = 5
        P = S.levels[0].prob
        c.run(u0=P.u_exact(0.0), t0=0.0, Tend=S.levels[0].params.dt * d['np'])
    except Exception as e:  # noqa
        out.update(phase='use', err=type(e).__name__, msg=str(e)[:120])
    return out


def compare(d, real):
    """list of disagreements between the model's interpretation (d) and the real outcome"""
    probs = []
    phase, err = d['outcome']
    if (real['phase'], real['err']) != (phase, err):
        probs.append(f"outcome: model {phase}/{err}, code {real['phase']}/{real['err']} {real.get('msg', '')}")
        return probs
    if phase == 'construct':
        return probs
    if real['nlevels'] != d['nlevels']:
        probs.append(f"number of levels {real['nlevels']} != longest list {d['nlevels']}")
        return probs
    for l, (m, r) in enumerate(zip(d['levels'], real['levels'])):
        exp = dict(dt=DTS[m['dt'] - 1] if m['dt'] else 0.1, nsw=m['nsw'], nodes=NODES[m['nodes'] - 1] if m['nodes'] else 3,
                   nvars=NVARS[m['nvars'] - 1] if m['nvars'] else 31)
        if exp != r:
            probs.append(f'level {l}: code {r} != model {exp}')
    if not real['same_on_all_steps']:
        probs.append('steps of one controller differ in their level parameters')
    if [list(x) for x in d['controllers']] != real['controllers']:
        probs.append(f"convergence controllers {real['controllers']} != model {d['controllers']}")
    return probs
