"""Recording harness for pySDC's serial controller (controller_nonMPI).

Everything here uses pySDC's public extension points only:
  * a `Hooks` subclass (controller_params['hook_class'])
  * `ConvergenceController` subclasses placed at chosen control orders
  * a subclass of the controller that wraps (never replaces) `pfasst()` and
    `restart_block()` -- each wrapped call is one action of spec/PfasstSerial.tla
  * a dynamically created subclass of the sweeper class that records the
    versions of the data a residual / end point was computed from.

A run produces a list of "lines" (JSON-able dicts), one per specification action:
  {"k":"rb", ...}   after restart_block   (run start / block end)
  {"k":"st", ...}   after pfasst()        (one stage of the block)
  {"k":"end", ...}  end of run() (return or exception)
"""
import hashlib
import numpy as np

from pySDC.core.hooks import Hooks
from pySDC.core.convergence_controller import ConvergenceController
from pySDC.implementations.controller_classes.controller_nonMPI import controller_nonMPI

_CURRENT = None  # the recorder of the run in progress (runs are sequential inside one process)


def current():
    return _CURRENT


def obj_bytes(x):
    if x is None:
        return None
    if hasattr(x, 'verif_bytes'):
        return x.verif_bytes()
    a = np.asarray(x)
    return str(a.dtype).encode() + str(a.shape).encode() + a.tobytes()


class Recorder:
    def __init__(self, t0=0.0, unit=None, script=None, mode='lattice'):
        self.lines = []
        self.events = []  # hook events since the last line
        self.cc = {}  # slot -> dict of observations made by the cc recorders during the current IT_CHECK
        self.intern = {}
        self.t0 = t0
        self.unit = unit
        self.mode = mode
        self.script = list(script) if script is not None else None
        self.pos = 0
        self.script_exhausted = False
        self.res_stamp = {}  # (slot, level) -> (h0, hn, htau) at the last compute_residual
        self.end_stamp = {}  # (slot, level) -> (h0, hn) at the last compute_end_point
        self.float_ids = {}
        self.raw_times = []
        self.errors = []
        self.all_post_steps = []
        self.sweep_res_ok = []
        self.work_snap = {}
        self.work_obs = {}
        self.work_bad = []
        self.last_carry = 0
        self.default = None
        self.defect_check = True

    # ---- projections -----------------------------------------------------
    def hid(self, x):
        b = obj_bytes(x)
        if b is None:
            return 0
        h = hashlib.sha1(b).digest()
        return self.intern.setdefault(h, len(self.intern) + 1)

    def hlist(self, xs):
        if xs is None or any(x is None for x in xs):
            return 0
        h = hashlib.sha1(b'|'.join(obj_bytes(x) for x in xs)).digest()
        return self.intern.setdefault(h, len(self.intern) + 1)

    def tick(self, t):
        """exact projection of a time / step size to integer ticks (lattice mode) or an interned id (float mode)"""
        if t is None:
            return 0
        if self.mode == 'lattice':
            q = (float(t)) / self.unit
            if q != int(q):
                self.errors.append(f'off-lattice value {t!r}')
                return -999999
            return int(q)
        return self.float_ids.setdefault(float(t), len(self.float_ids) + 1)

    def ev(self, name, step, level, extra=None):
        slot = step.status.slot if step is not None else None
        e = [name, -1 if slot is None else slot, -1 if level is None else level]
        if extra is not None:
            e.append(extra)
        self.events.append(e)


class RecHook(Hooks):
    """records every callback"""

    def _r(self, name, step, level_number, extra=None):
        r = current()
        if r is not None and step is not None:
            r.ev(name, step, level_number, extra)

    def pre_run(self, step, level_number):
        super().pre_run(step, level_number)
        self._r('pre_run', step, level_number)

    def post_run(self, step, level_number):
        super().post_run(step, level_number)
        self._r('post_run', step, level_number)

    def pre_step(self, step, level_number):
        super().pre_step(step, level_number)
        self._r('pre_step', step, level_number)
        r = current()
        if r is not None and level_number == 0:
            r.work_snap[step.status.slot] = getattr(step.levels[0].prob, '_verif_rhs_calls', None)

    def post_step(self, step, level_number):
        super().post_step(step, level_number)
        self._r('post_step', step, level_number)
        r = current()
        if r is not None:
            L = step.levels[0]
            r.all_post_steps.append((r.tick(L.time + L.dt), step.status.iter, r.hid(L.uend)))
            now = getattr(L.prob, '_verif_rhs_calls', None)
            if now is not None and r.work_snap.get(step.status.slot) is not None:
                r.work_obs[(r.tick(L.time + L.dt), int(step.status.iter), int(step.status.get('restarts_in_a_row') or 0), int(step.status.slot))] = \
                    now - r.work_snap[step.status.slot]
            r.post_step_obs.append(dict(s=step.status.slot, t=r.tick(L.time), dt=r.tick(L.dt), k=step.status.iter,
                                        rs=bool(step.status.get('restart')), riar=int(step.status.get('restarts_in_a_row') or 0),
                                        u0=r.hid(L.u[0]), ue=r.hid(L.uend), obj=L.uend))
            if now is not None and level_number == 0:
                # work done BETWEEN steps (what an error-logging hook does through u_exact): it belongs to no step, so the
                # work recorded for the next step in this slot must not contain it
                for _ in range(1 + (int(step.status.slot) + int(step.status.iter)) % 3):
                    L.prob.eval_f(L.u[0], L.time)

    def pre_predict(self, step, level_number):
        super().pre_predict(step, level_number)
        self._r('pre_predict', step, level_number)

    def post_predict(self, step, level_number):
        super().post_predict(step, level_number)
        self._r('post_predict', step, level_number)

    def pre_iteration(self, step, level_number):
        super().pre_iteration(step, level_number)
        self._r('pre_iteration', step, level_number)

    def post_iteration(self, step, level_number):
        super().post_iteration(step, level_number)
        self._r('post_iteration', step, level_number)
        r = current()
        if r is not None:
            L = step.levels[0]
            if L.uend is not None:  # what a per-iteration solution hook logs at this moment
                r.all_post_steps.append((r.tick(L.time + L.dt), step.status.iter, r.hid(L.uend)))
            now = getattr(L.prob, '_verif_rhs_calls', None)
            if now is not None and r.work_snap.get(step.status.slot) is not None:
                r.work_obs[(r.tick(L.time + L.dt), int(step.status.iter), int(step.status.get('restarts_in_a_row') or 0), int(step.status.slot))] = \
                    now - r.work_snap[step.status.slot]

    def pre_sweep(self, step, level_number):
        super().pre_sweep(step, level_number)
        self._r('pre_sweep', step, level_number)

    def post_sweep(self, step, level_number):
        super().post_sweep(step, level_number)
        self._r('post_sweep', step, level_number)
        r = current()
        if r is not None and r.defect_check and level_number == 0 and step.status.stage == 'IT_FINE':
            # the residual a user sees after every fine sweep is the defect of the values the step holds now
            try:
                ok = defect_matches(step.levels[0])
            except Exception:  # noqa
                ok = True  # data types the recomputation does not support
            r.sweep_res_ok.append(bool(ok))

    def pre_comm(self, step, level_number):
        super().pre_comm(step, level_number)
        r = current()
        if r is not None:
            L = step.levels[level_number]
            r._pre_comm_u0 = id(L.u[0])
            r._pre_comm_key = (step.status.slot, level_number)
        self._r('pre_comm', step, level_number)

    def post_comm(self, step, level_number, add_to_stats=False):
        super().post_comm(step, level_number, add_to_stats)
        r = current()
        if r is not None:
            L = step.levels[level_number]
            if getattr(r, '_pre_comm_key', None) == (step.status.slot, level_number) and r._pre_comm_u0 != id(L.u[0]):
                # u[0] was replaced between pre_comm and post_comm: a receive happened
                src = step.prev.levels[level_number]
                tag = src.tag
                r.events.append(['recv', step.status.slot, level_number,
                                 [list(tag) if tag is not None else [], step.status.iter, step.prev.status.slot,
                                  r.hid(L.u[0]), r.hid(src.uend)]])
            r._pre_comm_key = None
        self._r('post_comm', step, level_number, bool(add_to_stats))


def make_cc_recorder(order, name):
    """a convergence controller that only observes, at a given control order"""

    class _Rec(ConvergenceController):
        def setup(self, controller, params, description, **kwargs):
            return {'control_order': order, **super().setup(controller, params, description, **kwargs)}

        def check_iteration_status(self, controller, S, **kwargs):
            r = current()
            if r is None:
                return
            L = S.levels[0]
            d = r.cc.setdefault(S.status.slot, {})
            d[name] = dict(
                rs=bool(S.status.get('restart')),
                dtn=L.status.dt_new,
                res=L.status.residual,
                restol=L.params.restol,
                fd=bool(S.status.force_done),
                fc=bool(S.status.force_continue),
                done=bool(S.status.done),
                k=S.status.iter,
                sweep=L.status.sweep,
                h0=r.hid(L.u[0]),
                hn=r.hlist(L.u[1:]),
                ht=r.hlist(L.tau) if L.tau[0] is not None else 0,
            )
            if name == 'Rec199' and r.script is None and r.defect_check:
                d[name]['resval_ok'] = defect_matches(L)

    _Rec.__name__ = name
    _Rec.__qualname__ = name
    return _Rec


def defect_matches(L):
    """independent recomputation of the collocation defect u0 + dt*Q*F(U) + tau - U from the node VALUES
    (the right-hand side is re-evaluated), in the configured residual type, compared with level.status.residual"""
    P = L.prob
    coll = L.sweep.coll
    M = coll.num_nodes
    counters = {k: v.niter for k, v in P.work_counters.items()}
    own = getattr(P, '_verif_rhs_calls', None)
    try:
        f = [P.eval_f(L.u[m], L.time + L.dt * coll.nodes[m - 1]) for m in range(1, M + 1)]

        def total(fm):
            if hasattr(fm, 'impl') and hasattr(fm, 'expl'):
                return fm.impl + fm.expl
            if hasattr(fm, 'comp1') and hasattr(fm, 'comp2'):
                return fm.comp1 + fm.comp2
            return fm

        norms = []
        for m in range(M):
            r_ = P.dtype_u(L.u[0])
            for j in range(M):
                r_ += L.dt * coll.Qmat[m + 1, j + 1] * total(f[j])
            r_ -= L.u[m + 1]
            if L.tau[m] is not None:
                r_ += L.tau[m]
            norms.append(abs(r_))
    finally:
        for k, v in counters.items():
            P.work_counters[k].niter = v
        if own is not None:
            P._verif_rhs_calls = own
    rt = L.params.residual_type
    val = {'full_abs': max(norms), 'last_abs': norms[-1], 'full_rel': max(norms) / abs(L.u[0]),
           'last_rel': norms[-1] / abs(L.u[0])}.get(rt)
    if val is None:
        return False
    got = L.status.residual
    return bool(abs(got - val) <= 1e-8 * max(abs(val), abs(got)) + 1e-13)


Rec94 = make_cc_recorder(94, 'Rec94')  # after estimators / adaptivity / limiters, before BasicRestarting (95)
Rec199 = make_cc_recorder(199, 'Rec199')  # inputs of CheckConvergence (200)
Rec201 = make_cc_recorder(201, 'Rec201')  # outcome of CheckConvergence


class ScriptExhausted(Exception):
    pass


class ScriptedOracle(ConvergenceController):
    """Plays the numerics: consumes one record per (running step, IT_CHECK pass) in call order.

    record = dict(res=bool, rs=bool, dtn=<ticks or 0>, fd=bool, fc=bool)
    """

    def setup(self, controller, params, description, **kwargs):
        return {'control_order': -100, **super().setup(controller, params, description, **kwargs)}

    def post_iteration_processing(self, controller, S, **kwargs):
        r = current()
        if r is None or r.script is None:
            return
        if r.pos >= len(r.script):
            if r.default is not None:
                r.script.append(dict(r.default))  # lazily extended script (exploration of the choice tree)
            else:
                r.script_exhausted = True
                raise ScriptExhausted()
        o = r.script[r.pos]
        r.pos += 1
        L = S.levels[0]
        # "the residual is not at most the tolerance" has several floating-point faces: a finite value, infinity, not-a-number
        L.status.residual = 0.0 if o.get('res') else (1.0, float('inf'), float('nan'))[r.pos % 3]
        if o.get('rs'):
            S.status.restart = True
        dtn = o.get('dtn', 0)
        if o.get('dtm'):  # proposal relative to the current step size: dt * m / 2
            L.status.dt_new = L.params.dt * o['dtm'] / 2
        else:
            L.status.dt_new = (dtn * r.unit) if dtn else None
        if o.get('fd'):
            S.status.force_done = True
        S.status.force_continue = bool(o.get('fc'))
        r.cc.setdefault(S.status.slot, {})['orc'] = dict(o)


def make_rec_sweeper(base):
    """subclass of a sweeper class recording what residuals / end points were computed from"""

    class RecSweeper(base):
        def compute_residual(self, stage=''):
            super().compute_residual(stage=stage)
            r = current()
            if r is not None:
                L = self.level
                r.res_stamp[id(L)] = (r.hid(L.u[0]), r.hlist(L.u[1:]), r.hlist(L.tau) if L.tau[0] is not None else 0,
                                       L.status.residual)

        def compute_end_point(self):
            super().compute_end_point()
            r = current()
            if r is not None:
                L = self.level
                r.end_stamp[id(L)] = (r.hid(L.u[0]), r.hlist(L.u[1:]))

    RecSweeper.__name__ = base.__name__
    RecSweeper.__qualname__ = base.__qualname__
    return RecSweeper


class TracedController(controller_nonMPI):
    """controller_nonMPI with pfasst() and restart_block() wrapped by recording code"""

    def pfasst(self, local_MS_active):
        r = current()
        if r is None:
            return super().pfasst(local_MS_active)
        stages = [S.status.stage for S in local_MS_active if S.status.stage != 'DONE']
        sg = stages[0] if stages else 'DONE'
        running = [S.status.slot for S in local_MS_active if S.status.stage != 'DONE']
        r.cc = {}
        r.post_step_obs = []
        err = None
        try:
            ret = super().pfasst(local_MS_active)
        except ScriptExhausted:
            raise
        except Exception as e:  # noqa
            err = type(e).__name__
            r.lines.append(self._line('st', sg, running, local_MS_active, err))
            raise
        r.lines.append(self._line('st', sg, running, local_MS_active, err))
        return ret

    def restart_block(self, active_slots, time, u0):
        super().restart_block(active_slots, time, u0)
        r = current()
        if r is None:
            return
        r.raw_times.append([float(t) for t in time])
        line = dict(k='rb', nact=len(active_slots), time=[r.tick(t) for t in time],
                    dt=[r.tick(S.dt) for S in self.MS],
                    dts=[[r.tick(L.params.dt) for L in S.levels] for S in self.MS],
                    riar=[int(S.status.get('restarts_in_a_row') or 0) for S in self.MS],
                    carry=r.hid(u0), u0=[r.hid(self.MS[p].levels[0].u[0]) for p in active_slots],
                    aliased=[self.MS[p].levels[0].u[0] is u0 for p in active_slots],
                    evs=r.events)
        r.events = []
        r.last_carry = line['carry']
        r.lines.append(line)

    def _line(self, kind, sg, running, MS_active, err):
        r = current()
        nact = len(MS_active)
        snap = dict(stage=[], iter=[], done=[], pdone=[], fdone=[], rs=[], riar=[], lsweep=[], dtn=[], tag=[],
                    h0=[], hn=[], he=[], fresh=[], endfresh=[], resval=[], unlocked=[])
        for S in MS_active:
            L0 = S.levels[0]
            snap['stage'].append(S.status.stage)
            snap['iter'].append(int(S.status.iter))
            snap['done'].append(bool(S.status.done))
            snap['pdone'].append(bool(S.status.prev_done))
            snap['fdone'].append(bool(S.status.force_done))
            snap['rs'].append(bool(S.status.get('restart')))
            snap['lsweep'].append(int(L0.status.sweep) if L0.status.sweep is not None else -1)
            snap['dtn'].append(r.tick(L0.status.dt_new) if L0.status.dt_new is not None else 0)
            snap['tag'].append([list(L.tag) if L.tag is not None else [] for L in S.levels])
            snap['h0'].append([r.hid(L.u[0]) for L in S.levels])
            snap['hn'].append([r.hlist(L.u[1:]) for L in S.levels])
            snap['he'].append([r.hid(L.uend) for L in S.levels])
            snap['unlocked'].append([bool(L.status.unlocked) for L in S.levels])
            stamp = r.res_stamp.get(id(L0))
            cur = (r.hid(L0.u[0]), r.hlist(L0.u[1:]), r.hlist(L0.tau) if L0.tau[0] is not None else 0)
            snap['fresh'].append(bool(stamp is not None and stamp[:3] == cur))
            es = r.end_stamp.get(id(L0))
            snap['endfresh'].append(bool(es is not None and es == cur[:2] and L0.uend is not None))
        snap['riar'] = [int(S.status.get('restarts_in_a_row') or 0) for S in self.MS]
        orc = []
        if sg == 'IT_CHECK':
            for p in running:
                c = r.cc.get(p, {})
                a, b, z = c.get('Rec94'), c.get('Rec199'), c.get('Rec201')
                b = b or a
                if b is None:  # an exception ended the stage before this step was looked at
                    orc.append(dict(res=False, rs=False, dtn=0, fd=False, fc=False, done201=False, fresh=True,
                                    same_res=True, resval_ok=True, missing=True))
                    continue
                res = b['res']
                stamp = r.res_stamp.get(id(self.MS[p].levels[0]))
                orc.append(dict(
                    res=bool(res is not None and res <= b['restol']),
                    rs=bool(a['rs']) if a else False,
                    dtn=r.tick(b['dtn']) if b['dtn'] is not None else 0,
                    fd=b['fd'], fc=b['fc'],
                    done201=bool(z['done']) if z else False,
                    fresh=bool(stamp is not None and stamp[:3] == (b['h0'], b['hn'], b['ht'])),
                    same_res=bool(stamp is not None and stamp[3] == res),
                    resval_ok=bool(b.get('resval_ok', True)),
                    missing=z is None,
                ))
        line = dict(k=kind, sg=sg, running=running, nact=nact, err=err or 'none', orc=orc, evs=r.events,
                    ps=[{k: v for k, v in o.items() if k != 'obj'} for o in r.post_step_obs], sres_ok=all(r.sweep_res_ok), **snap)
        r.sweep_res_ok = []
        r.events = []
        return line


PER_STEP_TYPES = ('niter', 'restart', 'dt', 'u', 'work_rhs', 'k')


def project_stats(rec, stats):
    """projection of the real statistics dictionary to the entries modelled in PfasstSerial.tla"""
    if stats is None:
        return dict(has_stats=False, stats=[], filtered=[], filtered_all=[], logged_unchanged=True, work_ok=True)
    from pySDC.helpers.stats_helper import get_sorted
    ent = []
    logged_ok = True
    work_ok = True
    seen_ps = {}
    for (t, k, h) in rec.all_post_steps:
        seen_ps.setdefault((t, k), set()).add(h)
    for key, v in stats.items():
        if key.type not in PER_STEP_TYPES + ('_recomputed', 'residual_post_iteration'):
            continue
        if key.type == 'u':
            val = 0
            if rec.hid(v) not in seen_ps.get((rec.tick(key.time), key.iter), set()):
                logged_ok = False
        elif key.type == 'dt':
            val = rec.tick(v)
        elif key.type == '_recomputed':
            val = 1 if v else 0
        elif key.type == 'residual_post_iteration':
            val = 0
        elif key.type == 'work_rhs':
            val = 0
            if int(key.level or 0) != 0:
                continue
            want = rec.work_obs.get((rec.tick(key.time), int(key.iter), int(key.num_restarts or 0), int(key.process)))
            if want is not None and int(v) != want:
                work_ok = False
                rec.work_bad.append(dict(time=rec.tick(key.time), iter=int(key.iter), recorded=int(v), calls=want))
        else:
            val = int(v)
        ent.append([key.type, rec.tick(key.time), int(key.iter), int(key.num_restarts or 0), int(key.process),
                    int(key.sweep) if key.sweep is not None else -1, val])
    filtered = []
    for T in PER_STEP_TYPES:
        got = get_sorted(stats, type=T, recomputed=False, sortby='time')
        filtered.append([T, [[rec.tick(t), (0 if T in ('u', 'work_rhs') else (rec.tick(v) if T == 'dt' else int(v)))] for t, v in got]])
    from pySDC.helpers.stats_helper import filter_stats
    fall = []
    for key, v in filter_stats(stats, recomputed=False).items():
        if key.type in PER_STEP_TYPES:
            if key.type == 'work_rhs' and int(key.level or 0) != 0:
                continue
            fall.append([key.type, rec.tick(key.time), 0 if key.type in ('u', 'work_rhs') else (rec.tick(v) if key.type == 'dt' else int(v))])
    return dict(has_stats=True, stats=ent, filtered=filtered, filtered_all=fall, logged_unchanged=logged_ok, work_ok=work_ok)


def stats_digest(stats):
    import hashlib
    items = []
    for k, v in (stats or {}).items():
        if str(k.type).startswith('timing'):
            continue
        val = hashlib.sha1(np.asarray(v).tobytes()).hexdigest()[:10] if isinstance(v, np.ndarray) else repr(v)
        items.append((repr(tuple(k)), val))
    items.sort()
    return hashlib.sha1(repr(items).encode()).hexdigest()


def run_traced(description, controller_params, num_procs, u0_fn, t0, Tend, unit=None, script=None, mode='lattice',
               extra_hooks=(), controller_cls=TracedController, default=None, defect_check=True, prelude=None):
    """Build a traced controller from a plain description and run it.  Returns (recorder, outcome dict)."""
    global _CURRENT
    import copy
    desc = dict(description)
    desc['sweeper_class'] = make_rec_sweeper(desc['sweeper_class'])
    cc = dict(desc.get('convergence_controllers', {}))
    if script is not None:
        cc[ScriptedOracle] = {}
    cc[Rec94] = {}
    cc[Rec199] = {}
    cc[Rec201] = {}
    desc['convergence_controllers'] = cc
    cp = dict(controller_params)
    hooks = cp.get('hook_class', [])
    hooks = list(hooks) if isinstance(hooks, (list, tuple)) else [hooks]
    cp['hook_class'] = hooks + [RecHook] + list(extra_hooks)
    cp.setdefault('logger_level', 40)
    cp.setdefault('dump_setup', False)
    rec = Recorder(t0=t0, unit=unit, script=script, mode=mode)
    rec.post_step_obs = []
    rec.default = default
    rec.defect_check = defect_check
    out = dict(exc=None, uend=None, stats=None)
    _CURRENT = rec
    try:
        ctrl = controller_cls(num_procs=num_procs, controller_params=cp, description=desc)
        rec.controller = ctrl
        P = ctrl.MS[0].levels[0].prob
        if prelude is not None:
            # an earlier run on the same controller object (recorded into a throw-away recorder)
            pre = Recorder(t0=prelude['t0'], unit=unit, script=list(prelude['script']), mode=mode)
            pre.post_step_obs = []
            pre.default = dict(res=True)
            pre.defect_check = False
            pre.controller = ctrl
            _CURRENT = pre
            pre_out = ctrl.run(u0=u0_fn(P), t0=prelude['t0'], Tend=prelude['Tend'])
            rec.pre_stats = pre_out[1]
            rec.pre_digest = stats_digest(pre_out[1])
            _CURRENT = rec
        u0 = u0_fn(P)
        rec.u0_obj = u0
        h_before = rec.hid(u0)
        try:
            uend, stats = ctrl.run(u0=u0, t0=t0, Tend=Tend)
            out['uend'] = uend
            out['stats'] = stats
        except ScriptExhausted:
            out['exc'] = 'ScriptExhausted'
        except Exception as e:  # noqa
            out['exc'] = type(e).__name__
            out['exc_msg'] = str(e)[:200]
        rec.lines.append(dict(k='end', exc=out['exc'] or 'none', ret=rec.hid(out['uend']), carry=rec.last_carry,
                              u0_unchanged=(rec.hid(u0) == h_before), evs=rec.events,
                              # the statistics an EARLIER run on this controller returned are still what they were
                              prev_stats_unchanged=bool(getattr(rec, 'pre_stats', None) is None or stats_digest(rec.pre_stats) == rec.pre_digest),
                              **project_stats(rec, out['stats'])))
        rec.events = []
    finally:
        _CURRENT = None
    return rec, out
