"""Z_p instantiation of pySDC's generic algorithm (data types, problems, quadrature / preconditioner generators,
transfer classes).  The real sweepers, base transfer and controllers run unchanged on these; all arithmetic is exact,
so results can be compared with the TLA+ model (SdcAlgebra.tla) for equality.

Float scalars reach Z_p through the ring homomorphism Z[1/2] -> Z_p (p odd): a finite float is exactly n*2^-e and is
mapped to n*(2^-1)^e mod p.  Floats with |n| >= 2^40 or e > 40 are rejected: they indicate inexact upstream arithmetic.
"""
import numpy as np

from pySDC.core.problem import Problem, WorkCounter
from pySDC.core.errors import ProblemError

P = 3  # current modulus (set with set_modulus)


def set_modulus(p):
    global P
    assert p % 2 == 1
    P = p


class InexactScalar(Exception):
    pass


def hom(x):
    """float / int -> Z_p"""
    if isinstance(x, (int, np.integer)):
        return int(x) % P
    if isinstance(x, complex) or isinstance(x, np.complexfloating):
        if x.imag != 0:
            raise InexactScalar(repr(x))
        x = x.real
    x = float(x)
    if x != x or x in (float('inf'), float('-inf')):
        raise InexactScalar(repr(x))
    n, d = x.as_integer_ratio()
    e = d.bit_length() - 1
    if abs(n) >= 2 ** 40 or e > 40:
        raise InexactScalar(repr(x))
    inv2 = pow(2, -1, P)
    return (n % P) * pow(inv2, e, P) % P


class zmesh(object):
    """vector over Z_p with the interface pySDC's sweepers need from a data type"""

    __array_ufunc__ = None

    def __init__(self, init=None, val=0.0):
        if isinstance(init, zmesh):
            self.v = init.v.copy()
        elif isinstance(init, tuple):
            n = init[0] if not isinstance(init[0], tuple) else init[0][0]
            self.v = np.full(int(n), hom(val), dtype=np.int64)
        elif isinstance(init, (list, np.ndarray)):
            self.v = np.array([int(a) % P for a in init], dtype=np.int64)
        else:
            raise TypeError(f'cannot build zmesh from {type(init)}')

    def __add__(self, o):
        if isinstance(o, zmesh):
            return type(self)((self.v + o.v) % P)
        return NotImplemented

    __radd__ = __add__

    def __sub__(self, o):
        if isinstance(o, zmesh):
            return type(self)((self.v - o.v) % P)
        return NotImplemented

    def __neg__(self):
        return type(self)((-self.v) % P)

    def __mul__(self, c):
        if isinstance(c, zmesh):
            return type(self)((self.v * c.v) % P)
        return type(self)((self.v * hom(c)) % P)

    __rmul__ = __mul__

    def __iadd__(self, o):
        return self.__add__(o)

    def __isub__(self, o):
        return self.__sub__(o)

    def __imul__(self, c):
        return self.__mul__(c)

    def __abs__(self):
        return float(np.count_nonzero(self.v))

    def __eq__(self, o):
        return isinstance(o, zmesh) and bool(np.array_equal(self.v, o.v))

    def __hash__(self):
        return hash(self.v.tobytes())

    def tolist(self):
        return [int(a) for a in self.v]

    def verif_bytes(self):
        return b'zmesh' + self.v.tobytes()

    def verif_after_write(self):
        """called by the simulated MPI after it wrote into self.v (sums arrive unreduced)"""
        self.v %= P

    def copy(self):
        return type(self)(self)

    def __repr__(self):
        return f'z{self.tolist()}'


class mesh(zmesh):
    """same Z_p vector under the class NAME the Runge-Kutta sweepers dispatch on"""


class zimex(object):
    """right-hand side with implicit and explicit part; like imex_mesh it is ONE buffer with two components (so that it can be
    handed to MPI calls as a whole), `impl` / `expl` are views"""

    __array_ufunc__ = None

    def __init__(self, init=None, val=0.0):
        if isinstance(init, zimex):
            self.v = init.v.copy()
        else:
            n = len(zmesh(init, val).v)
            self.v = np.full(2 * n, hom(val), dtype=np.int64)

    def _view(self, lo, hi):
        z = zmesh.__new__(zmesh)
        z.v = self.v[lo:hi]
        return z

    @property
    def impl(self):
        return self._view(0, len(self.v) // 2)

    @impl.setter
    def impl(self, value):
        self.v[: len(self.v) // 2] = value.v

    @property
    def expl(self):
        return self._view(len(self.v) // 2, len(self.v))

    @expl.setter
    def expl(self, value):
        self.v[len(self.v) // 2:] = value.v

    def verif_bytes(self):
        return b'zimex' + self.v.tobytes()

    def verif_after_write(self):
        self.v %= P

    def copy(self):
        return zimex(self)

    # component-wise arithmetic, as imex_mesh offers it (used by BaseTransfer.prolong_f)
    def _new(self, arr):
        r = zimex(self)
        r.v = arr % P
        return r

    def __add__(self, o):
        return self._new(self.v + o.v) if isinstance(o, zimex) else NotImplemented

    def __sub__(self, o):
        return self._new(self.v - o.v) if isinstance(o, zimex) else NotImplemented

    def __mul__(self, c):
        return self._new(self.v * hom(c))

    __rmul__ = __mul__

    def __iadd__(self, o):
        return self.__add__(o)


class zcomp2(object):
    """right-hand side with two implicit parts (multi_implicit sweeper)"""

    __array_ufunc__ = None

    def __init__(self, init=None, val=0.0):
        if isinstance(init, zcomp2):
            self.comp1 = zmesh(init.comp1)
            self.comp2 = zmesh(init.comp2)
        else:
            self.comp1 = zmesh(init, val)
            self.comp2 = zmesh(init, val)

    def verif_bytes(self):
        return b'zcomp2' + self.comp1.v.tobytes() + self.comp2.v.tobytes()


def solve_mod(Mx, rhs):
    """solve Mx x = rhs over Z_p by Gaussian elimination; raises ProblemError if singular"""
    n = len(rhs)
    A = [[int(Mx[i][j]) % P for j in range(n)] + [int(rhs[i]) % P] for i in range(n)]
    for c in range(n):
        piv = next((r for r in range(c, n) if A[r][c] % P != 0), None)
        if piv is None:
            raise ProblemError('singular system over Z_p')
        A[c], A[piv] = A[piv], A[c]
        inv = pow(A[c][c], -1, P)
        A[c] = [(a * inv) % P for a in A[c]]
        for r in range(n):
            if r != c and A[r][c] % P:
                f = A[r][c]
                A[r] = [(a - f * b) % P for a, b in zip(A[r], A[c])]
    return [A[i][n] for i in range(n)]


class ZpLinear(Problem):
    """u' = A u + (B u + c * u.u) ; fully implicit flavour evaluates everything in one piece"""

    dtype_u = zmesh
    dtype_f = zmesh

    def __init__(self, A=((1,),), B=None, quad=0, g=None):
        n = len(A)
        super().__init__(init=(n, None, np.dtype('int64')))
        self._makeAttributeAndRegister('A', 'B', 'quad', 'g', localVars=locals(), readOnly=True)
        self.n = n
        self.work_counters['rhs'] = WorkCounter()
        self.work_counters['solve'] = WorkCounter()

    def _apply(self, Mx, u):
        return zmesh([sum(int(Mx[i][j]) * int(u.v[j]) for j in range(self.n)) % P for i in range(self.n)])

    def eval_f(self, u, t):
        self.work_counters['rhs']()
        f = self._apply(self.A, u)
        if self.B is not None:
            f = f + self._apply(self.B, u)
        if self.quad:
            f = f + zmesh([(self.quad * int(a) * int(a)) % P for a in u.v])
        if self.g is not None:
            f = f + hom(t) * zmesh(list(self.g))  # time-dependent forcing
        return f

    def solve_system(self, rhs, factor, u0, t):
        """(I - factor*A) u = rhs  (only the linear part A is treated implicitly)"""
        self.work_counters['solve']()
        if self.B is not None or self.quad:
            raise ProblemError('fully implicit solve only for linear A')
        c = hom(factor)
        Mx = [[((1 if i == j else 0) - c * int(self.A[i][j])) % P for j in range(self.n)] for i in range(self.n)]
        return zmesh(solve_mod(Mx, rhs.v))

    def u_exact(self, t):
        return zmesh([1] * self.n)


class ZpLinearRK(ZpLinear):
    """data type named `mesh` (RungeKutta.get_full_f dispatches on type(f).__name__)"""

    dtype_u = mesh
    dtype_f = mesh

    def _apply(self, Mx, u):
        return mesh([sum(int(Mx[i][j]) * int(u.v[j]) for j in range(self.n)) % P for i in range(self.n)])

    def solve_system(self, rhs, factor, u0, t):
        return mesh(super().solve_system(rhs, factor, u0, t))

    def u_exact(self, t):
        return mesh([1] * self.n)


class ZpMulti(ZpLinear):
    """f = comp1 (A u) + comp2 (B u), both implicit"""

    dtype_f = zcomp2

    def eval_f(self, u, t):
        self.work_counters['rhs']()
        f = zcomp2((self.n, None, None))
        f.comp1 = self._apply(self.A, u)
        f.comp2 = self._apply(self.B, u)
        return f

    def _solve(self, Mat, rhs, factor):
        c = hom(factor)
        Mx = [[((1 if i == j else 0) - c * int(Mat[i][j])) % P for j in range(self.n)] for i in range(self.n)]
        return zmesh(solve_mod(Mx, rhs.v))

    def solve_system_1(self, rhs, factor, u0, t):
        return self._solve(self.A, rhs, factor)

    def solve_system_2(self, rhs, factor, u0, t):
        return self._solve(self.B, rhs, factor)


class ZpIMEX(ZpLinear):
    """f = (A u) implicit + (B u + quad*u.u) explicit"""

    dtype_f = zimex

    def eval_f(self, u, t):
        self.work_counters['rhs']()
        f = zimex((self.n, None, None))
        f.impl = self._apply(self.A, u)
        e = self._apply(self.B, u) if self.B is not None else zmesh((self.n, None, None))
        if self.quad:
            e = e + zmesh([(self.quad * int(a) * int(a)) % P for a in u.v])
        if self.g is not None:
            e = e + hom(t) * zmesh(list(self.g))  # time-dependent forcing
        f.expl = e
        return f

    def solve_system(self, rhs, factor, u0, t):
        self.work_counters['solve']()
        c = hom(factor)
        Mx = [[((1 if i == j else 0) - c * int(self.A[i][j])) % P for j in range(self.n)] for i in range(self.n)]
        return zmesh(solve_mod(Mx, rhs.v))


# ---------------------------------------------------------------------------------------------------------
# quadrature and preconditioner coefficients through pySDC's own plumbing (CollBase, get_Qdelta_*)

REG = {}  # key -> dict(nodes, weights, Q, QI (list over k or single), QE, dtau)


def register_coeffs(key, **kw):
    REG[str(key)] = kw


def install_generators():
    """put the Z_p generators into the registries pySDC looks them up in (idempotent)"""
    import pySDC.core.collocation as coll_mod
    import pySDC.core.sweeper as sw_mod
    from qmat.qcoeff import QGenerator
    from qmat.qdelta import QDeltaGenerator

    if getattr(coll_mod, '_verif_patched', False):
        return
    real_coll = coll_mod.Q_GENERATORS['Collocation']

    class ZGen(QGenerator):
        def __init__(self, nNodes=None, nodeType=None, quadType=None, tLeft=0, tRight=1, **kw):
            self.reg = REG[nodeType.split(':', 1)[1]]
            assert len(self.reg['nodes']) == nNodes
            self.key = nodeType.split(':', 1)[1]

        @property
        def nodes(self):
            return np.array(self.reg['nodes'], dtype=float)

        @property
        def weights(self):
            return np.array(self.reg['weights'], dtype=float)

        @property
        def Q(self):
            return np.array(self.reg['Q'], dtype=float)

        @property
        def order(self):
            return len(self.reg['nodes'])

    class _Dispatch(dict):
        """Q_GENERATORS stand-in: node types 'ZP:<key>' go to the Z_p generator, everything else to qmat"""

    def coll_factory(nNodes=None, nodeType=None, quadType=None, tLeft=0, tRight=1, **kw):
        if isinstance(nodeType, str) and nodeType.startswith('ZP:'):
            return ZGen(nNodes=nNodes, nodeType=nodeType, quadType=quadType, tLeft=tLeft, tRight=tRight)
        return real_coll(nNodes=nNodes, nodeType=nodeType, quadType=quadType, tLeft=tLeft, tRight=tRight, **kw)

    coll_mod.Q_GENERATORS = dict(coll_mod.Q_GENERATORS)
    coll_mod.Q_GENERATORS['Collocation'] = coll_factory
    coll_mod._verif_patched = True

    def make(name, field, kdep):
        class _QD(QDeltaGenerator):
            _K_DEPENDENT = kdep

            def __init__(self, qGen=None, tLeft=0, **kw):
                self.reg = qGen.reg
                self.Q = np.asarray(qGen.Q, dtype=float)

            def computeQDelta(self, k=None):
                m = self.reg[field]
                if kdep:
                    kk = 0 if k is None else int(k)
                    return np.array(m[min(kk, len(m) - 1)], dtype=float)
                return np.array(m, dtype=float)

            @property
            def dTau(self):
                return np.array(self.reg.get('dtau', [0] * len(self.reg['nodes'])), dtype=float)

        _QD.__name__ = name
        _QD.__qualname__ = name
        sw_mod.QDELTA_GENERATORS[name] = _QD
        sw_mod.QDELTA_GENERATORS_ALIASES[_QD] = {name}
        return _QD

    make('ZQI', 'QI', False)
    make('ZQIK', 'QIK', True)
    make('ZQE', 'QE', False)
    make('ZQ2', 'QE', False)  # second implicit preconditioner of multi_implicit (stored in the QE slot of an instance)
