"""Driver: build real controller_nonMPI runs from a model configuration + oracle script, record traces,
and validate batches of traces with TLC against spec/TracePfasstSerial.tla."""
import json
import os
import sys
import tempfile

import numpy as np

HERE = os.path.dirname(os.path.abspath(__file__))
sys.path.insert(0, os.path.dirname(HERE))

from harness.rec import run_traced  # noqa: E402
from lib import tlc  # noqa: E402

UNIT = 1.0 / 64.0

CFG_KEYS = ['NP', 'NL', 'MAXITER', 'NSW', 'PRED', 'JAC', 'A2D', 'MAXR', 'CRASH', 'RFF', 'OW', 'ENDDEP', 'T0', 'TEND',
            'DT0', 'REUSE']

DEFAULT_CFG = dict(NP=2, NL=1, MAXITER=3, NSW=[1], PRED='none', JAC=True, A2D=False, MAXR=2, CRASH=True, RFF=False,
                   OW=True, ENDDEP=False, T0=0, TEND=8, DT0=4, REUSE=False)


def cfg_key(cfg):
    return json.dumps([cfg[k] for k in CFG_KEYS])


_COUNTING = {}


def counting(cls):
    """problem class that counts the calls of eval_f itself (independently of the library's work counters)"""
    if cls not in _COUNTING:
        class Counting(cls):
            _verif_rhs_calls = 0  # instance attribute after the first call

            def eval_f(self, *a, **k):
                self._verif_rhs_calls = getattr(self, '_verif_rhs_calls', 0) + 1
                return super().eval_f(*a, **k)

        Counting.__name__ = cls.__name__
        Counting.__qualname__ = cls.__qualname__
        Counting.__module__ = cls.__module__
        _COUNTING[cls] = Counting
    return _COUNTING[cls]


def build(cfg):
    """description + controller params of a real pySDC run realising a model configuration"""
    from pySDC.implementations.problem_classes.TestEquation_0D import testequation0d
    from pySDC.implementations.sweeper_classes.generic_implicit import generic_implicit
    from pySDC.implementations.hooks.log_solution import LogSolution
    from pySDC.implementations.hooks.log_step_size import LogStepSize
    from pySDC.implementations.convergence_controller_classes.basic_restarting import BasicRestartingNonMPI
    from pySDC.implementations.convergence_controller_classes.spread_step_sizes import SpreadStepSizesBlockwiseNonMPI
    from harness.transfer import IdentitySpaceTransfer

    NL = cfg['NL']
    nodes = [3, 2, 1][:NL] if NL > 1 else 2
    sweeper = generic_implicit
    pclass, pparams = testequation0d, dict(lambdas=np.array([-1.0, -0.5]), u0=1.0)
    swp = dict(num_nodes=nodes, quad_type=cfg.get('quad_type', 'RADAU-RIGHT'), QI=cfg.get('QI', 'IE'),
               do_coll_update=bool(cfg['ENDDEP']))
    if cfg.get('problem') == 'heat':
        from pySDC.implementations.problem_classes.HeatEquation_ND_FD import heatNd_unforced
        pclass, pparams = heatNd_unforced, dict(nu=0.1, freq=2, nvars=[31, 15, 7][:NL] if NL > 1 else 31, bc='dirichlet-zero')
    elif cfg.get('problem') == 'imex':
        from pySDC.implementations.problem_classes.HeatEquation_ND_FD import heatNd_forced
        from pySDC.implementations.sweeper_classes.imex_1st_order import imex_1st_order
        pclass, pparams = heatNd_forced, dict(nu=0.1, freq=2, nvars=[31, 15, 7][:NL] if NL > 1 else 31, bc='dirichlet-zero')
        sweeper = imex_1st_order
    elif cfg.get('problem') == 'vdp':
        from pySDC.implementations.problem_classes.Van_der_Pol_implicit import vanderpol
        pclass, pparams = vanderpol, dict(mu=2.0, newton_tol=1e-12, newton_maxiter=50, u0=np.array([2.0, 0.0]))
    if cfg.get('dae'):
        import pySDC.projects.DAE.sweepers.semiImplicitDAE as sdae
        import pySDC.projects.DAE.sweepers.fullyImplicitDAE as fdae
        from pySDC.projects.DAE.problems.discontinuousTestDAE import DiscontinuousTestDAE
        sweeper = getattr(sdae, cfg['dae'], None) or getattr(fdae, cfg['dae'])
        pclass, pparams = DiscontinuousTestDAE, dict(newton_tol=1e-9)
        swp = dict(num_nodes=2, quad_type='RADAU-RIGHT', QI='IE')
    if cfg.get('sweeper'):
        import pySDC.implementations.sweeper_classes.Runge_Kutta as rk
        sweeper = getattr(rk, cfg['sweeper'])
        swp = dict(do_coll_update=False) if False else {}
        if issubclass(sweeper, rk.RungeKuttaIMEX):
            from pySDC.implementations.problem_classes.HeatEquation_ND_FD import heatNd_forced
            pclass, pparams = heatNd_forced, dict(nu=0.1, freq=2, nvars=31, bc='dirichlet-zero')
    desc = dict(
        problem_class=pclass,
        problem_params=pparams,
        sweeper_class=sweeper,
        sweeper_params=swp,
        level_params=dict(dt=cfg['DT0'] * UNIT, restol=cfg.get('restol', 0.5),
                          nsweeps=list(cfg['NSW']) if NL > 1 else cfg['NSW'][0],
                          residual_type=cfg.get('residual_type', 'full_abs')),
        step_params=dict(maxiter=cfg['MAXITER']),
        convergence_controllers={
            BasicRestartingNonMPI: dict(max_restarts=cfg['MAXR'], crash_after_max_restarts=cfg['CRASH'],
                                        restart_from_first_step=cfg['RFF']),
            SpreadStepSizesBlockwiseNonMPI: dict(overwrite_to_reach_Tend=cfg['OW']),
        },
    )
    if NL > 1:
        if cfg.get('problem') in ('heat', 'imex'):
            from pySDC.implementations.transfer_classes.TransferMesh import mesh_to_mesh
            desc['space_transfer_class'] = mesh_to_mesh
            desc['space_transfer_params'] = dict(rorder=2, iorder=2)
        else:
            desc['space_transfer_class'] = IdentitySpaceTransfer
    from pySDC.implementations.hooks.log_work import LogWork, LogSDCIterations
    hooks = [LogSolution, LogStepSize, LogWork, LogSDCIterations]
    desc['problem_class'] = counting(desc['problem_class'])
    if cfg.get('log_iter'):
        from pySDC.implementations.hooks.log_solution import LogSolutionAfterIteration
        hooks = [LogSolutionAfterIteration] + hooks
    cp = dict(mssdc_jac=cfg['JAC'], all_to_done=cfg['A2D'], hook_class=hooks)
    if cfg['PRED'] != 'none':
        cp['predict_type'] = cfg['PRED']
    return desc, cp


def run_one(cfg, script, tid=0, default=None):
    desc, cp = build(cfg)
    t_init = cfg['T0'] * UNIT + (1.0 if cfg.get('dae') else 0.0)
    prelude = None
    if cfg.get('REUSE'):
        # the controller is used before: a run over one full block and one block of NP//2 steps whose steps are told to halve
        # their step size -- afterwards the steps that sat out the last block still hold DT0, the others DT0/2
        NP = cfg['NP']
        half = max(1, NP // 2)
        prelude = dict(t0=0.0, Tend=(NP + half) * cfg['DT0'] * UNIT,
                       script=[dict(res=True)] * NP + [dict(res=True, dtn=cfg['DT0'] // 2)] * half + [dict(res=True)] * 8)
    rec, out = run_traced(desc, cp, cfg['NP'], lambda P: P.u_exact(t_init), t_init, t_init + (cfg['TEND'] - cfg['T0']) * UNIT,
                          unit=UNIT, script=script, mode='lattice', default=default,
                          defect_check=not (cfg.get('sweeper') or cfg.get('dae')), prelude=prelude)
    script = rec.script[:rec.pos] if rec.script is not None else script
    lines = rec.lines
    if lines and lines[-1]['k'] == 'end':
        lines[-1]['fixed'] = (not cfg.get('REUSE')) and all((not o.get('rs')) and not o.get('dtn') and not o.get('dtm') for o in (script or []))
    return dict(tid=tid, cfg=cfg, ev=lines, consumed=rec.pos, exhausted=rec.script_exhausted, errors=rec.errors,
                exc=out['exc'], exc_msg=out.get('exc_msg'), script=script)


TRACE_CONSTANT_DEFAULTS = dict(O_RES='{TRUE, FALSE}', O_RS='{TRUE, FALSE}', O_DTN='{0}', O_FD='{TRUE, FALSE}',
                               O_FC='{TRUE, FALSE}')


def cfg_constants(cfg, oracle=None, hist=False):
    c = {'HIST': 'TRUE' if hist else 'FALSE'}
    for k in CFG_KEYS:
        v = cfg[k]
        if k == 'NSW':
            continue
        c[k] = tlc.tla_value(v)
    c.update(oracle or TRACE_CONSTANT_DEFAULTS)
    return c


def negative_constants(consts):
    """TLC configuration files do not accept negative numbers: they are defined in the wrapper module and substituted"""
    defs = ''
    for k, v in list(consts.items()):
        if isinstance(v, str) and v.lstrip().startswith('-') and v.strip()[1:].isdigit():
            defs += f'mc_{k} == {v}\n'
            consts[k] = ('<-', f'mc_{k}')
    return defs


def validate_batch(cfg, runs, workdir, timeout=600):
    """validate runs (same cfg) with TLC; returns (verdicts by tid, TlcResult)"""
    os.makedirs(workdir, exist_ok=True)
    tf = os.path.join(workdir, 'batch.json')
    with open(tf, 'w') as f:
        json.dump(dict(runs=[dict(tid=r['tid'], ev=r['ev']) for r in runs]), f)
    mod = os.path.join(workdir, 'TV.tla')
    consts = cfg_constants(cfg)
    consts['NSW'] = ('<-', 'mc_NSW')
    negs = negative_constants(consts)
    with open(mod, 'w') as f:
        f.write('---- MODULE TV ----\nEXTENDS TracePfasstSerial\nmc_NSW == %s\n%s====\n' % (tlc.tla_value(list(cfg['NSW'])), negs))
    cfgp = os.path.join(workdir, 'TV.cfg')
    tlc.write_cfg(cfgp, spec='TraceSpec', constants=consts, check_deadlock=False, postcondition=None)
    res = tlc.run_tlc('TV', cfgp, workers=1, timeout=timeout, env_extra={'TRACE_FILE': tf}, spec_dir=workdir,
                      library=tlc.SPEC_DIR)
    verdicts = {}
    for v in res.prints:
        if isinstance(v, dict) and 'tid' in v:
            verdicts[v['tid']] = v
    return verdicts, res


if __name__ == '__main__':
    cfg = dict(DEFAULT_CFG, NP=3, TEND=16)
    script = [dict(res=False)] * 3 + [dict(res=True), dict(res=False), dict(res=True)] + [dict(res=True)] * 20
    r = run_one(cfg, script, tid=1)
    print(r['exc'], r['errors'], r['consumed'])
    wd = tempfile.mkdtemp(prefix='verif_tv_')
    v, res = validate_batch(cfg, [r], wd)
    print(v)
    print(res.summary())
    if not v:
        print(res.raw[-3000:])
