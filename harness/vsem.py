"""Execute ValueSemantics.tla programs on the real pySDC data types and compare after every statement."""
import numpy as np

N = 4  # must equal the constant N of ValueSemantics.tla (4: a strided view of a component still has two entries)


def families():
    from pySDC.implementations.datatype_classes.mesh import mesh, imex_mesh, comp2_mesh
    from pySDC.projects.DAE.misc.meshDAE import MeshDAE
    fams = []
    for mc, comps in ((imex_mesh, ('impl', 'expl')), (comp2_mesh, ('comp1', 'comp2')), (MeshDAE, ('diff', 'alg'))):
        for dt in (np.dtype('float64'), np.dtype('complex128')):
            fams.append(dict(kind='numpy', mesh=mesh, mc=mc, comps=comps, dtype=dt))
    fams.append(dict(kind='particles'))
    fams.append(dict(kind='fields'))
    return fams


class _NumpyFamily:
    def __init__(self, fam):
        self.f = fam

    def initial(self):
        f = self.f
        a = f['mesh'](((N,), None, f['dtype']))
        a[:] = np.arange(1, N + 1)
        b = f['mc'](((N,), None, f['dtype']))
        b[:] = (10 * np.arange(1, 2 * N + 1)).reshape(2, N)
        return dict(a=a, b=b, c=None)

    def twins(self):
        """the other class of the same shape: a sub-class of mesh for the plain mesh, another two-component class"""
        from pySDC.implementations.datatype_classes.particles import acceleration
        from pySDC.implementations.datatype_classes.mesh import imex_mesh, comp2_mesh
        mc2 = comp2_mesh if self.f['mc'] is not comp2_mesh else imex_mesh
        return acceleration, mc2

    def comps_of(self, o):
        from pySDC.implementations.datatype_classes.mesh import imex_mesh, comp2_mesh
        if type(o) is self.f['mc']:
            return self.f['comps']
        return ('impl', 'expl') if type(o) is imex_mesh else ('comp1', 'comp2') if type(o) is comp2_mesh else ('diff', 'alg')

    def ty(self, o):
        mesh2, mc2 = self.twins()
        if type(o) is self.f['mc']:
            return 'mc'
        if type(o) is self.f['mesh']:
            return 'mesh'
        if type(o) is mesh2:
            return 'mesh2'
        if type(o) is mc2:
            return 'mc2'
        return 'other:' + type(o).__name__

    def val(self, o):
        return [complex(v) for v in np.asarray(o).ravel()]

    def shares(self, o1, o2):
        return bool(np.shares_memory(o1, o2))

    def supports(self, stmt):
        return True

    def step(self, env, st):
        op = st[0]
        x = st[1]
        if op == 'copy':
            env[x] = type(env[st[2]])(env[st[2]])
        elif op == 'copyto':
            mesh2, mc2 = self.twins()
            y = env[st[2]]
            other = {self.f['mesh']: mesh2, mesh2: self.f['mesh'], self.f['mc']: mc2, mc2: self.f['mc']}[type(y)]
            env[x] = other(y)
        elif op == 'alias':
            env[x] = env[st[2]]
        elif op == 'add':
            env[x] = env[st[2]] + env[st[3]]
        elif op == 'sub':
            env[x] = env[st[2]] - env[st[3]]
        elif op == 'scale':
            env[x] = 2.0 * env[st[2]] if st[3] == 'l' else env[st[2]] * 2
        elif op == 'aug':
            v = env[x]
            v += env[st[2]]
            env[x] = v
        elif op == 'augscalar':
            v = env[x]
            v *= (2.0 if self.f['dtype'].kind == 'f' else 2)
            env[x] = v
        elif op == 'ufunc':
            env[x] = np.negative(env[st[2]])
        elif op == 'out':
            env[x] = np.add(env[st[2]], env[st[3]], out=env[st[2]])
        elif op == 'setall':
            env[x][:] = env[st[2]]
        elif op == 'setitem':
            env[x].flat[0] = 7
        elif op == 'comp':
            env[x] = getattr(env[st[2]], self.comps_of(env[st[2]])[st[3]])
        elif op == 'stride':
            y = env[st[2]]
            env[x] = y[:, ::2] if np.asarray(y).ndim == 2 else y[::2]
        elif op == 'abs':
            r = abs(env[x])
            if not isinstance(r, float) or r != float(st[2]):
                return f'abs() = {r!r} ({type(r).__name__}), maximum norm is {st[2]}'
            # a true norm is homogeneous and definite at every magnitude the data type can hold: the same values scaled far down / up
            for s in (1e-170, 1e-300, 1e150, 1e300):
                y = type(env[x])(env[x])
                y[:] = np.asarray(env[x]) * s
                want = float(np.max(np.abs(np.asarray(y)))) if np.asarray(y).size else 0.0
                got = abs(y)
                if not (got == want or abs(got - want) <= 4 * np.spacing(want)):
                    return f'abs() of the values scaled by {s} = {got!r}, maximum modulus is {want!r}'
        return None


class _ParticleFamily:
    """particles / fields: a two-part object (pos, vel) / (elec, magn); plain vectors are `acceleration` meshes"""

    def __init__(self, fam):
        self.kind = fam['kind']

    def _mk(self, vals):
        from pySDC.implementations.datatype_classes.particles import particles, fields
        cls = particles if self.kind == 'particles' else fields
        o = cls(((N,), None, np.dtype('float64')))
        p1, p2 = self._parts(o)
        p1[:] = vals[:N]
        p2[:] = vals[N:]
        return o

    def _parts(self, o):
        return (o.pos, o.vel) if self.kind == 'particles' else (o.elec, o.magn)

    def initial(self):
        from pySDC.implementations.datatype_classes.particles import acceleration
        a = acceleration(((N,), None, np.dtype('float64')))
        a[:] = np.arange(1, N + 1)
        return dict(a=a, b=self._mk(10 * np.arange(1, 2 * N + 1)), c=None)

    def _is_two(self, o):
        return hasattr(o, 'pos') or hasattr(o, 'elec')

    def ty(self, o):
        from pySDC.implementations.datatype_classes.particles import acceleration, particles, fields
        if type(o) is (particles if self.kind == 'particles' else fields):
            return 'mc'
        if type(o) is acceleration:
            return 'mesh'
        return 'other:' + type(o).__name__

    def val(self, o):
        if self._is_two(o):
            p1, p2 = self._parts(o)
            return [complex(v) for v in list(np.asarray(p1).ravel()) + list(np.asarray(p2).ravel())]
        return [complex(v) for v in np.asarray(o).ravel()]

    def shares(self, o1, o2):
        a = self._parts(o1) if self._is_two(o1) else (o1,)
        b = self._parts(o2) if self._is_two(o2) else (o2,)
        return any(np.shares_memory(x, y) for x in a for y in b)

    def par(self, o):
        """parameter arrays of a particles object (charge, mass) in the model's order"""
        if self.kind == 'particles' and hasattr(o, 'q'):
            return [complex(v) for v in list(np.asarray(o.q).ravel()) + list(np.asarray(o.m).ravel())]
        return []

    def pshares(self, o1, o2):
        if self.kind == 'particles' and hasattr(o1, 'q') and hasattr(o2, 'q'):
            return bool(np.shares_memory(o1.q, o2.q) or np.shares_memory(o1.m, o2.m))
        return False

    def supports(self, st):
        if st[0] == 'setpar':
            return self.kind == 'particles'
        if st[0] in ('comp', 'setall', 'setitem', 'ufunc', 'out', 'augscalar', 'stride', 'copyto'):
            return False
        if st[0] == 'scale' and st[3] == 'r':
            return False
        if st[0] == 'abs' and self.kind == 'fields':
            return False
        return True

    def step(self, env, st):
        op, x = st[0], st[1]
        if op == 'copy':
            env[x] = type(env[st[2]])(env[st[2]])
        elif op == 'alias':
            env[x] = env[st[2]]
        elif op == 'add':
            env[x] = env[st[2]] + env[st[3]]
        elif op == 'sub':
            env[x] = env[st[2]] - env[st[3]]
        elif op == 'scale':
            env[x] = 2.0 * env[st[2]]
        elif op == 'aug':
            v = env[x]
            v += env[st[2]]
            env[x] = v
        elif op == 'setpar':
            env[x].q[0] = 7
        elif op == 'abs':
            r = abs(env[x])
            if float(r) != float(st[2]):
                return f'abs() = {r!r}, maximum norm is {st[2]}'
        return None


def run_program(p, fam):
    F = _NumpyFamily(fam) if fam['kind'] == 'numpy' else _ParticleFamily(fam)
    prog, obs = p['prog'], p['obs']
    if p.get('haspar') and fam['kind'] != 'particles':
        return None  # programs of the parameter-array model describe the particles type only
    if not all(F.supports(st) for st in prog):
        return None
    if not p.get('haspar') and any(st[0] == 'setpar' for st in prog):
        return None
    env = F.initial()
    probs = []

    def compare(k):
        exp = obs[k]
        for x in ('a', 'b', 'c'):
            e = exp[x]
            if not e['bound']:
                continue
            o = env[x]
            if F.ty(o) != e['ty']:
                probs.append(f'after statement {k}: {x} has type {F.ty(o)}, expected {e["ty"]}')
            if F.val(o) != [complex(v) for v in e['val']]:
                probs.append(f'after statement {k}: {x} = {F.val(o)}, expected {e["val"]}')
            if p.get('haspar'):
                if F.par(o) != [complex(v) for v in e['par']]:
                    probs.append(f'after statement {k}: parameter arrays of {x} = {F.par(o)}, expected {e["par"]}')
                for y in ('a', 'b', 'c'):
                    if exp[y]['bound'] and y != x and F.pshares(o, env[y]) != (y in e['pshares']):
                        probs.append(f'after statement {k}: parameter arrays of {x} and {y} {"share" if F.pshares(o, env[y]) else "do not share"} memory, '
                                     f'expected {"sharing" if y in e["pshares"] else "independent storage"}')
            for y in ('a', 'b', 'c'):
                if exp[y]['bound'] and y != x:
                    sh = F.shares(o, env[y])
                    if sh != (y in e['shares']):
                        probs.append(f'after statement {k}: {x} and {y} {"share" if sh else "do not share"} memory, expected {"sharing" if y in e["shares"] else "independent storage"}')

    compare(0)
    for k, st in enumerate(prog):
        try:
            r = F.step(env, list(st))
        except Exception as e:  # noqa
            probs.append(f'statement {k + 1} {st} raised {type(e).__name__}: {e}')
            break
        if r:
            probs.append(f'statement {k + 1}: {r}')
        compare(k + 1)
    return probs
