"""Run one SdcAlgebra instance (as exported by TLC or generated randomly) through the REAL pySDC sweepers /
BaseTransfer on the Z_p data type and return the results in the model's vocabulary."""
import itertools

import numpy as np

from harness import zp
from pySDC.core.base_transfer import BaseTransfer
from pySDC.core.space_transfer import SpaceTransfer
from pySDC.core.step import Step
from pySDC.core.errors import ProblemError

_counter = itertools.count()

DT_FLOATS = [1.0, 2.0, 0.5, 4.0, 0.25, 8.0, 0.125, 3.0, 6.0, 1.5]


def dt_float(v):
    for f in DT_FLOATS:
        if zp.hom(f) == v % zp.P:
            return f
    raise ValueError(f'no float for dt={v} mod {zp.P}')


class ZpSpaceTransfer(SpaceTransfer):
    def __init__(self, fine_prob, coarse_prob, params):
        super().__init__(fine_prob, coarse_prob, params)
        self.Rs = params['Rs']
        self.Ps = params['Ps']

    @staticmethod
    def _mv(Mx, v, cls):
        return cls([sum(int(Mx[i][j]) * int(v.v[j]) for j in range(len(v.v))) % zp.P for i in range(len(Mx))])

    def restrict(self, F):
        if isinstance(F, zp.zimex):
            G = zp.zimex((len(self.Rs), None, None))
            G.impl, G.expl = self._mv(self.Rs, F.impl, zp.zmesh), self._mv(self.Rs, F.expl, zp.zmesh)
            return G
        return self._mv(self.Rs, F, zp.zmesh)

    def prolong(self, G):
        if isinstance(G, zp.zimex):
            F = zp.zimex((len(self.Ps), None, None))
            F.impl, F.expl = self._mv(self.Ps, G.impl, zp.zmesh), self._mv(self.Ps, G.expl, zp.zmesh)
            return F
        return self._mv(self.Ps, G, zp.zmesh)


class ZpBaseTransfer(BaseTransfer):
    """the real BaseTransfer with the node-to-node matrices replaced by Z_p matrices (the float Lagrange matrices
    between different node sets have no image in Z_p)"""

    def __init__(self, fine_level, coarse_level, base_transfer_params, space_transfer_class, space_transfer_params):
        p = dict(base_transfer_params)
        Rc, Pc = p.pop('Rc'), p.pop('Pc')
        super().__init__(fine_level, coarse_level, p, space_transfer_class, space_transfer_params)
        self.Rcoll = np.array(Rc, dtype=float)
        self.Pcoll = np.array(Pc, dtype=float)


def sweeper_class(kind):
    from pySDC.implementations.sweeper_classes.generic_implicit import generic_implicit
    from pySDC.implementations.sweeper_classes.imex_1st_order import imex_1st_order
    from pySDC.implementations.sweeper_classes.explicit import explicit
    from pySDC.implementations.sweeper_classes.multi_implicit import multi_implicit
    return {'impl': generic_implicit, 'imex': imex_1st_order, 'expl': explicit, 'multi': multi_implicit}[kind]


def node_floats(L):
    """node positions (floats) whose node TIMES dt*node have the images tn[m] in Z_p; distinct and increasing"""
    M = L['M']
    tn = L.get('tn') or [0] * M
    if not any(L.get('g') or []):  # no forcing: the node positions do not matter
        return [(m + 1) / M for m in range(M)]
    inv_dt = pow(zp.hom(dt_float(L['dt'])), -1, zp.P)
    out = []
    for m in range(M):
        want = (tn[m] * inv_dt) % zp.P
        f = next(a / 2 ** e for e in range(0, 3) for a in range(0, 4 * zp.P + 1) if zp.hom(a / 2 ** e) == want)
        out.append(f + float(zp.P) * (m + 1) * 4)
    return out


def level_description(L, kind):
    key = f'c{next(_counter)}'
    M = L['M']
    zp.register_coeffs(key, nodes=node_floats(L), weights=list(L['w']), Q=[list(r) for r in L['Q']],
                       QI=[list(r) for r in L['QI']], QE=[list(r) for r in L['QE']], QIK=[[list(r) for r in q] for q in L.get('QIK', [])])
    quad = {(True, False): 'RADAU-RIGHT', (True, True): 'LOBATTO', (False, True): 'RADAU-LEFT', (False, False): 'GAUSS'}[
        (bool(L['rightnode']), bool(L.get('leftnode', False)))]
    swp = dict(num_nodes=M, quad_type=quad, node_type='ZP:' + key,
               do_coll_update=bool(L['collupdate']))
    if kind == 'multi':
        swp['Q1'] = 'ZQI'
        swp['Q2'] = 'ZQ2'
    if kind in ('impl', 'imex'):
        swp['QI'] = 'ZQIK' if L.get('QIK') else 'ZQI'
    if kind in ('imex', 'expl'):
        swp['QE'] = 'ZQE'
    A = tuple(tuple(r) for r in L['A'])
    B = tuple(tuple(r) for r in L['B'])
    g = tuple(L['g']) if any(L.get('g') or []) else None
    if kind == 'imex':
        pc, pp = zp.ZpIMEX, dict(A=A, B=B, quad=int(L['c']), g=g)
    elif kind == 'multi':
        pc, pp = zp.ZpMulti, dict(A=A, B=B)
    elif kind == 'expl':
        pc, pp = zp.ZpLinear, dict(A=A, B=B if any(any(r) for r in B) else None, quad=int(L['c']), g=g)
    else:
        pc, pp = zp.ZpLinear, dict(A=A)
    return pc, pp, swp, key


def load_level(lvl, u0, U, tau):
    P_ = lvl.prob
    lvl.status.time = 0.0
    lvl.u[0] = zp.zmesh(list(u0))
    lvl.f[0] = P_.eval_f(lvl.u[0], 0.0)
    for m, um in enumerate(U):
        lvl.u[m + 1] = zp.zmesh(list(um))
        lvl.f[m + 1] = P_.eval_f(lvl.u[m + 1], lvl.time + lvl.dt * lvl.sweep.coll.nodes[m])
    if tau:
        lvl.tau = [zp.zmesh(list(t)) for t in tau]
    lvl.status.unlocked = True


def vecs(xs):
    return [x.tolist() for x in xs]


def run_rk_case(inst, p):
    """Runge-Kutta base class with a Z_p Butcher tableau (matrix = inst['QI'], weights = inst['w'])"""
    from pySDC.implementations.sweeper_classes.Runge_Kutta import RungeKutta
    zp.set_modulus(p)
    M = inst['M']

    class ZRK(RungeKutta):
        nodes = np.array([(m + 1) / M for m in range(M)], dtype=float)
        weights = np.array(inst['w'], dtype=float)
        matrix = np.array(inst['QI'], dtype=float)

    desc = dict(problem_class=zp.ZpLinearRK, problem_params=dict(A=tuple(tuple(r) for r in inst['A'])), sweeper_class=ZRK, sweeper_params={},
                level_params=dict(dt=dt_float(inst['dt'])), step_params=dict(maxiter=1))
    out = dict(res=[0, 0, 0], rel_ok=True)
    S = Step(desc)
    L = S.levels[0]
    L.status.time = 0.0
    L.status.sweep = 1
    L.u[0] = zp.mesh(list(inst['u0']))
    L.f[0] = L.prob.eval_f(L.u[0], 0.0)
    for m, um in enumerate(inst['U']):
        L.u[m + 1] = zp.mesh(list(um))
        L.f[m + 1] = L.prob.eval_f(L.u[m + 1], 0.0)
    L.status.unlocked = True
    out['integrate'] = vecs(L.sweep.integrate())
    out['uend'] = []
    try:
        L.sweep.update_nodes()
        out['defined'] = True
        out['sweep'] = vecs(L.u[1:])
        gsa = list(inst['QI'][M - 1]) == list(inst['w'])
        fresh = [L.prob.eval_f(L.u[m], 0.0) for m in range(1, M + 1)]
        # the right-hand side of the last stage is not evaluated for stiffly accurate schemes
        out['f_fresh'] = all(a == b for a, b in list(zip(fresh, L.f[1:]))[: M - 1 if gsa else M])
        out['u0_kept'] = L.u[0].tolist() == list(inst['u0'])
        L.sweep.compute_end_point()
        out['uend_after'] = L.uend.tolist()
        out['types_ok'] = all(type(x).__name__ == 'mesh' for x in L.u[1:]) and type(L.uend).__name__ == 'mesh'
    except (ProblemError, ValueError, ZeroDivisionError):
        out['defined'] = False
        out['sweep'] = []
        out['uend_after'] = []
    return out


def run_sweep_case(inst, p):
    """returns dict(sweep=.., integrate=.., res=[max,last,nnz(u0)], uend=.., defined=bool)"""
    if inst['kind'] == 'rk':
        return run_rk_case(inst, p)
    zp.set_modulus(p)
    zp.install_generators()
    kind = inst['kind']
    pc, pp, swp, key = level_description(inst, kind)
    desc = dict(problem_class=pc, problem_params=pp, sweeper_class=sweeper_class(kind), sweeper_params=swp,
                level_params=dict(dt=dt_float(inst['dt'])), step_params=dict(maxiter=1))
    out = {}
    try:
        S = Step(desc)
        L = S.levels[0]
        load_level(L, inst['u0'], inst['U'], inst['tau'])
        if inst.get('QIK'):
            L.sweep.updateVariableCoeffs(inst['k'])  # k-dependent preconditioner: refresh for sweep index k
        out['integrate'] = vecs(L.sweep.integrate())
        res = {}
        for rt in ('full_abs', 'last_abs'):
            L.params.residual_type = rt
            L.sweep.compute_residual()
            res[rt] = int(L.status.residual)
        out['res'] = [res['full_abs'], res['last_abs'], int(abs(L.u[0]))]
        if abs(L.u[0]) > 0:
            L.params.residual_type = 'full_rel'
            L.sweep.compute_residual()
            out['full_rel_ok'] = L.status.residual == res['full_abs'] / abs(L.u[0])
            L.params.residual_type = 'last_rel'
            L.sweep.compute_residual()
            out['last_rel_ok'] = L.status.residual == res['last_abs'] / abs(L.u[0])
        L.params.residual_type = 'full_abs'
        L.sweep.compute_end_point()
        out['uend'] = L.uend.tolist()
        try:
            L.sweep.update_nodes()
            out['defined'] = True
            out['sweep'] = vecs(L.u[1:])
            # after the sweep the stored right-hand sides must be those of the new values
            fresh = [L.prob.eval_f(L.u[m], L.time + L.dt * L.sweep.coll.nodes[m - 1]) for m in range(1, inst['M'] + 1)]
            if kind == 'multi':
                out['f_fresh'] = all(a.comp1 == b.comp1 and a.comp2 == b.comp2 for a, b in zip(fresh, L.f[1:]))
            elif kind == 'imex':
                out['f_fresh'] = all(a.impl == b.impl and a.expl == b.expl for a, b in zip(fresh, L.f[1:]))
            else:
                out['f_fresh'] = all(a == b for a, b in zip(fresh, L.f[1:]))
            out['u0_kept'] = L.u[0].tolist() == list(inst['u0'])
        except (ProblemError, ValueError, ZeroDivisionError):
            out['defined'] = False
            out['sweep'] = []
    finally:
        zp.REG.pop(key, None)
    return out


def run_restrict_twice_case(cfg, u0b):
    """three levels (a zp_runs configuration): restrict down the hierarchy, let a new initial value arrive on the finest level, restrict
    down again; returns what the middle and the coarsest level hold"""
    zp.set_modulus(cfg['P'])
    zp.install_generators()
    kind = cfg['kind']
    descs = [level_description(L, kind) for L in cfg['levels']]
    keys = [d[3] for d in descs]
    try:
        pp = {k: [d[1][k] for d in descs] for k in descs[0][1]}
        swp = {k: [d[2][k] for d in descs] for k in descs[0][2]}
        T = cfg['transfers']
        desc = dict(problem_class=descs[0][0], problem_params=pp, sweeper_class=sweeper_class(kind), sweeper_params=swp,
                    level_params=dict(dt=dt_float(cfg['levels'][0]['dt'])), step_params=dict(maxiter=1),
                    base_transfer_class=ZpBaseTransfer, base_transfer_params=[dict(Rc=T[0]['Rc'], Pc=T[0]['Pc'])] + [dict(Rc=t['Rc'], Pc=t['Pc']) for t in T],
                    space_transfer_class=ZpSpaceTransfer, space_transfer_params=[dict(Rs=T[0]['Rs'], Ps=T[0]['Ps'])] + [dict(Rs=t['Rs'], Ps=t['Ps']) for t in T])
        S = Step(desc)
        LF, LG, LH = S.levels
        M = cfg['levels'][0]['M']
        U = cfg['U']
        load_level(LF, cfg['u_init'], U, [])
        for L in (LG, LH):
            L.status.time = 0.0
        S.transfer(source=LF, target=LG)
        S.transfer(source=LG, target=LH)
        # a new initial value arrives on the finest level (as a receive from the previous step does)
        LF.u[0] = zp.zmesh(list(u0b))
        LF.f[0] = LF.prob.eval_f(LF.u[0], 0.0)
        S.transfer(source=LF, target=LG)
        S.transfer(source=LG, target=LH)
        return dict(mid=dict(u0=LG.u[0].tolist(), U=vecs(LG.u[1:]), tau=vecs(LG.tau)),
                    coarse=dict(u0=LH.u[0].tolist(), U=vecs(LH.u[1:]), tau=vecs(LH.tau)))
    finally:
        for k in keys:
            zp.REG.pop(k, None)


def run_transfer_case(inst, p):
    zp.set_modulus(p)
    zp.install_generators()
    kind = inst['kind']
    G, T = inst['G'], inst['T']
    pcF, ppF, swF, kF = level_description(inst, kind)
    pcG, ppG, swG, kG = level_description(G, kind)
    desc = dict(problem_class=pcF, problem_params={k: [ppF[k], ppG[k]] for k in ppF}, sweeper_class=sweeper_class(kind),
                sweeper_params={k: ([swF[k], swG[k]] if swF[k] != swG[k] else swF[k]) for k in swF},
                level_params=dict(dt=dt_float(inst['dt'])), step_params=dict(maxiter=1),
                base_transfer_class=ZpBaseTransfer,
                base_transfer_params=dict(Rc=[list(r) for r in T['Rc']], Pc=[list(r) for r in T['Pc']], finter=bool(inst.get('finter'))),
                space_transfer_class=ZpSpaceTransfer, space_transfer_params=dict(Rs=[list(r) for r in T['Rs']], Ps=[list(r) for r in T['Ps']]))
    out = {}
    try:
        S = Step(desc)
        LF, LG = S.levels
        load_level(LF, inst['u0'], inst['U'], inst['tau'])
        LG.status.time = 0.0
        S.transfer(source=LF, target=LG)
        out['restricted'] = dict(u0=LG.u[0].tolist(), U=vecs(LG.u[1:]), tau=vecs(LG.tau), Uold=vecs(LG.uold[1:]))
        LG.sweep.compute_residual()
        out['coarse_res'] = int(LG.status.residual)
        try:
            LG.sweep.update_nodes()
            out['defined'] = True
        except (ProblemError, ValueError, ZeroDivisionError):
            out['defined'] = False
        out['coarse_swept'] = vecs(LG.u[1:])
        S.transfer(source=LG, target=LF)
        out['prolonged'] = vecs(LF.u[1:])
        out['finter'] = bool(inst.get('finter'))
        if kind == 'imex':
            out['f_impl'], out['f_expl'] = vecs([f.impl for f in LF.f[1:]]), vecs([f.expl for f in LF.f[1:]])
        else:
            # one piece: compare with the sum of the model's parts (the explicit part of an implicit instance is zero)
            out['f_impl'], out['f_expl'] = vecs(LF.f[1:]), [[0] * inst['n'] for _ in range(inst['M'])]
        out['fine_u0_kept'] = LF.u[0].tolist() == list(inst['u0'])
    finally:
        zp.REG.pop(kF, None)
        zp.REG.pop(kG, None)
    return out
