"""Run the REAL controller_MPI on the simulated MPI (harness/simmpi) and the real controller_nonMPI on the same
description; both get the same deterministic oracle (a function of the step's own state), so that they can be
compared step by step."""
import hashlib
import os
import sys

_SIM = os.path.join(os.path.dirname(os.path.abspath(__file__)), 'simmpi')
if _SIM not in sys.path:
    sys.path.insert(0, _SIM)

import numpy as np  # noqa: E402

from pySDC.core.convergence_controller import ConvergenceController  # noqa: E402
from pySDC.core.hooks import Hooks  # noqa: E402

UNIT = 1.0 / 64.0


def _h(*xs):
    return int(hashlib.sha1(repr(xs).encode()).hexdigest()[:8], 16)


class OracleFn(ConvergenceController):
    """numerics stand-in: decisions are a deterministic function of (seed, step start, step size, iteration, restarts in a row)"""

    def setup(self, controller, params, description, **kwargs):
        return {'control_order': -100, 'seed': 0, 'pconv': 50, 'prs': 0, 'pdt': 0, 'real_residual': False, 'forced': (),
                **super().setup(controller, params, description, **kwargs)}

    def post_iteration_processing(self, controller, S, **kwargs):
        L = S.levels[0]
        key = (self.params.seed, round(L.time / UNIT), round(L.dt / UNIT), S.status.iter, int(S.status.get('restarts_in_a_row') or 0))
        h = _h(*key)
        if not self.params.real_residual:
            L.status.residual = 0.0 if (h % 100) < self.params.pconv else 1.0
        conv = L.status.residual <= L.params.restol
        if ((h >> 8) % 100) < self.params.prs and (conv or S.status.iter >= S.params.maxiter):
            S.status.restart = True
        for (ft, friar, fdt) in self.params.forced:
            # scripted rejection: the step starting at tick ft with friar restarts in a row is restarted with step size fdt
            if key[1] == ft and key[4] == friar and (conv or S.status.iter >= S.params.maxiter):
                S.status.restart = True
                L.status.dt_new = fdt * UNIT
                return
        if ((h >> 16) % 100) < self.params.pdt:
            new = L.params.dt * (0.5 if (h >> 24) % 2 else 2.0)
            # keep step sizes on the lattice and bounded so that scripted runs stay finite
            L.status.dt_new = new if UNIT <= new <= 16 * UNIT else None
        else:
            L.status.dt_new = None


class StepLog(Hooks):
    """per-step outcome"""

    def __init__(self):
        super().__init__()
        self.steps = []

    def post_step(self, step, level_number):
        super().post_step(step, level_number)
        L = step.levels[0]
        self.steps.append(dict(t=float(L.time), dt=float(L.dt), niter=int(step.status.iter), restart=bool(step.status.get('restart')),
                               riar=int(step.status.get('restarts_in_a_row') or 0), slot=int(step.status.slot),
                               uend=hashlib.sha1(np.asarray(L.uend).tobytes()).hexdigest()[:12]))


def description(cfg, node_comm=None):
    from pySDC.implementations.problem_classes.TestEquation_0D import testequation0d
    from pySDC.implementations.problem_classes.HeatEquation_ND_FD import heatNd_unforced
    from pySDC.implementations.sweeper_classes.generic_implicit import generic_implicit
    from pySDC.implementations.transfer_classes.TransferMesh import mesh_to_mesh
    from pySDC.implementations.convergence_controller_classes.basic_restarting import BasicRestarting
    NL = cfg['NL']
    if NL == 1:
        pc, pp = testequation0d, dict(lambdas=np.array([-1.0, -0.5 + 1j]), u0=1.0)
        nodes = 3
    else:
        pc, pp = heatNd_unforced, dict(nu=0.1, freq=2, nvars=[31, 15, 7][:NL], bc='dirichlet-zero')
        nodes = [3, 2, 2][:NL]
    useMPI = cfg['mpi']
    swp = dict(num_nodes=nodes, quad_type='RADAU-RIGHT', QI='IE')
    sweeper = generic_implicit
    if cfg.get('NODES'):
        # space-time parallel: diagonal preconditioner, the same number of nodes on all levels; with a node communicator the
        # node-parallel sweeper (and transfer) is used, without one the serial classes with the same coefficients
        swp = dict(num_nodes=cfg['NODES'], quad_type='RADAU-RIGHT', QI='MIN-SR-S')
        if node_comm is not None:
            from pySDC.implementations.sweeper_classes.generic_implicit_MPI import generic_implicit_MPI
            sweeper = generic_implicit_MPI
            swp['comm'] = node_comm
    desc = dict(problem_class=pc, problem_params=pp, sweeper_class=sweeper,
                sweeper_params=swp,
                level_params=dict(dt=cfg['DT0'] * UNIT, restol=0.5 if cfg.get('oracle', True) is True else cfg.get('restol', 1e-8),
                                  nsweeps=cfg.get('NSW', [1] * NL) if NL > 1 else cfg.get('NSW', [1])[0]),
                step_params=dict(maxiter=cfg['MAXITER']),
                convergence_controllers={BasicRestarting.get_implementation(useMPI=useMPI): dict(
                    max_restarts=cfg.get('MAXR', 3), crash_after_max_restarts=cfg.get('CRASH', True),
                    restart_from_first_step=cfg.get('RFF', False))})
    if cfg.get('oracle', True):
        desc['convergence_controllers'][OracleFn] = dict(seed=cfg['seed'], pconv=cfg.get('pconv', 50), prs=cfg.get('prs', 0), pdt=cfg.get('pdt', 0),
                                                         real_residual=cfg.get('oracle') == 'restarts_only', forced=tuple(tuple(x) for x in cfg.get('forced', ())))
    if NL > 1:
        desc['space_transfer_class'] = mesh_to_mesh
        desc['space_transfer_params'] = dict(rorder=2, iorder=2)
        if cfg.get('NODES') and node_comm is not None:
            from pySDC.implementations.transfer_classes.BaseTransferMPI import base_transfer_MPI
            desc['base_transfer_class'] = base_transfer_MPI
    cp = dict(logger_level=50, dump_setup=False, hook_class=[StepLog], mssdc_jac=cfg.get('JAC', True), all_to_done=cfg.get('A2D', False))
    if cfg.get('PRED'):
        cp['predict_type'] = cfg['PRED']
    return desc, cp


def _steplog(controller):
    for h in controller.hooks:
        if isinstance(h, StepLog):
            return h.steps
    return []


def run_serial(cfg):
    from pySDC.implementations.controller_classes.controller_nonMPI import controller_nonMPI
    desc, cp = description(dict(cfg, mpi=False))
    out = dict(exc=None)
    c = None
    try:
        c = controller_nonMPI(num_procs=cfg['NP'], controller_params=cp, description=desc)
        P = c.MS[0].levels[0].prob
        uend, stats = c.run(u0=P.u_exact(0.0), t0=cfg['T0'] * UNIT, Tend=cfg['TEND'] * UNIT)
        out['uend'] = hashlib.sha1(np.asarray(uend).tobytes()).hexdigest()[:12]
        out['steps'] = sorted(_steplog(c), key=lambda s: (s['t'], s['riar'], s['slot'], s['dt'], s['niter']))
    except Exception as e:  # noqa
        out['exc'] = type(e).__name__
        out['msg'] = str(e)[:200]
        if c is not None:
            out['steps'] = sorted(_steplog(c), key=lambda s: (s['t'], s['riar'], s['slot'], s['dt'], s['niter']))
    return out


def run_mpi(cfg, sched_seed=0, policy='random'):
    from mpi4py import MPI
    from pySDC.implementations.controller_classes.controller_MPI import controller_MPI
    M = cfg.get('NODES') or 0

    def target(world):
        if M:
            # rank r of the world handles node r % M of time step r // M
            tcomm = world.Split(color=world.rank % M, key=world.rank // M)
            ncomm = world.Split(color=world.rank // M, key=world.rank % M)
            desc, cp = description(dict(cfg, mpi=True), node_comm=ncomm)
            comm = tcomm
        else:
            desc, cp = description(dict(cfg, mpi=True))
            comm = world
        c = controller_MPI(controller_params=cp, description=desc, comm=comm)
        sizes = []
        orig = c.restart_block

        def rb(size, time, u0, comm):  # observes the number of active ranks of every block this rank takes part in
            sizes.append(size)
            return orig(size, time, u0, comm)

        c.restart_block = rb
        P = c.S.levels[0].prob
        uend, stats = c.run(u0=P.u_exact(0.0), t0=cfg['T0'] * UNIT, Tend=cfg['TEND'] * UNIT)
        return dict(uend=hashlib.sha1(np.asarray(uend).tobytes()).hexdigest()[:12], steps=_steplog(c), rank=comm.rank, last_size=sizes[-1] if sizes else 0,
                    node=(world.rank % M) if M else 0)

    results, w, errors = MPI.run_world(cfg['NP'] * max(M, 1), target, seed=sched_seed, policy=policy)
    out = dict(exc=None, deadlock=bool(w.deadlock), failed=w.failed, events=w.events, nchoices=len(w.choices))
    errs = [e for e in errors if e is not None]
    if errs:
        real = [e for e in errs if type(e).__name__ not in ('Deadlock',)]
        e = (real or errs)[0]
        out['exc'] = type(e).__name__
        out['msg'] = str(e)[:300]
        out['all_exc'] = [type(e).__name__ if e is not None else None for e in errors]
    steps = []
    uends = []
    # ranks that take part in the last block: the first `size` ranks of the last block rank 0 ran (active ranks are a prefix)
    nlast = results[0]['last_size'] if results and results[0] is not None else len(results)
    out['node_ranks_disagree'] = False
    by_time_rank = {}
    for r in results:
        if r is not None:
            by_time_rank.setdefault(r['rank'], []).append(r)
    for r in results:
        if r is not None and r['node'] == 0:
            steps += r['steps']
            if r['rank'] < nlast:
                uends.append(r['uend'])
            for o in by_time_rank[r['rank']]:
                if o['steps'] != r['steps'] or o['uend'] != r['uend']:
                    out['node_ranks_disagree'] = True
    out['steps'] = sorted(steps, key=lambda s: (s['t'], s['riar'], s['slot'], s['dt'], s['niter']))
    out['uends'] = uends
    return out
