"""Real adaptive runs (Adaptivity with embedded error estimate, optional limiters) recorded for AdaptMonitor.tla."""
import numpy as np

from pySDC.core.convergence_controller import ConvergenceController
from pySDC.core.hooks import Hooks


class _RawProposal(ConvergenceController):
    """observes the raw proposal right after Adaptivity (order -50) and before the limiters (91, 92)"""

    def setup(self, controller, params, description, **kwargs):
        return {'control_order': -49, **super().setup(controller, params, description, **kwargs)}

    def get_new_step_size(self, controller, S, **kwargs):
        L = S.levels[0]
        old = S.status.__dict__.get('verif_raw')
        # the operands belong to the iteration in which the proposal was (re)computed: a step that is told to keep iterating
        # (avoid_restarts) carries its proposal along unchanged
        if old is None or old[0] != L.status.dt_new or S.status.iter <= S.params.maxiter:
            S.status.__dict__['verif_raw'] = (L.status.dt_new, L.status.get('error_embedded_estimate'), S.status.iter)


class _Final(ConvergenceController):
    def setup(self, controller, params, description, **kwargs):
        return {'control_order': 94, **super().setup(controller, params, description, **kwargs)}

    def get_new_step_size(self, controller, S, **kwargs):
        L = S.levels[0]
        S.status.__dict__['verif_final'] = (L.status.dt_new, bool(S.status.get('restart')))


class _ScriptedEstimate(ConvergenceController):
    """replaces the embedded error estimate of the k-th finished attempt by ratio[k] * e_tol (the estimator is scripted, Adaptivity,
    the limiters and the restarting logic are the real ones)"""

    def setup(self, controller, params, description, **kwargs):
        # right after the real estimator (-80) and before everything that consumes the estimate (contraction factor -75, adaptivity -50)
        return {'control_order': -79, 'ratios': (1.0,), 'e_tol': 1.0, 'per_iteration': False, **super().setup(controller, params, description, **kwargs)}

    def post_iteration_processing(self, controller, S, **kwargs):
        if self.params.per_iteration:
            # one scripted value per ITERATION (needed where the history of estimates matters: avoid_restarts looks at the
            # contraction factor); after the script the estimate keeps contracting by a factor 4 per iteration
            if S.status.iter > 0:
                k = getattr(self, '_k', 0)
                if k < len(self.params.ratios):
                    r = self.params.ratios[k]
                    self._last = r
                else:
                    r = self._last = getattr(self, '_last', 1.0) / 4.0
                S.levels[0].status.error_embedded_estimate = float(r) * self.params.e_tol
                self._k = k + 1
            return
        if S.status.iter >= S.params.maxiter:
            k = getattr(self, '_k', 0)
            # after the scripted prefix the estimate is comfortably below the tolerance, so that every run reaches Tend
            r = self.params.ratios[k] if k < len(self.params.ratios) else 0.3
            S.levels[0].status.error_embedded_estimate = float(r) * self.params.e_tol
            self._k = k + 1


class _ScriptedOutcome(ConvergenceController):
    """for the adaptivity classes for converged collocation problems: the k-th attempt is made to fail to converge ('nc': the residual
    is kept large until the iteration budget is used up), to converge with a too large error estimate (a ratio > 1 of the tolerance)
    or to converge with an acceptable one (ratio < 1); after the script every attempt is fine"""

    def setup(self, controller, params, description, **kwargs):
        return {'control_order': -51, 'outcomes': (), 'e_tol': 1.0, **super().setup(controller, params, description, **kwargs)}

    def _current(self):
        k = getattr(self, '_k', 0)
        return self.params.outcomes[k] if k < len(self.params.outcomes) else 0.3

    def post_iteration_processing(self, controller, S, **kwargs):
        o = self._current()
        L = S.levels[0]
        if o == 'nc':
            L.status.residual = 1.0
        else:
            L.status.error_embedded_estimate = float(o) * self.params.e_tol

    def prepare_next_block(self, controller, S, size, time, Tend, **kwargs):
        self._k = getattr(self, '_k', 0) + 1


class _Log(Hooks):
    def __init__(self):
        super().__init__()
        self.att = []

    def post_step(self, step, level_number):
        super().post_step(step, level_number)
        L = step.levels[0]
        import hashlib
        self.att.append(dict(t=float(L.time), dt=float(L.dt), restart=bool(step.status.get('restart')),
                             u0h=hashlib.sha1(np.ascontiguousarray(L.u[0]).tobytes()).hexdigest()[:12],
                             riar=int(step.status.get('restarts_in_a_row') or 0), raw=step.status.__dict__.get('verif_raw'),
                             final=step.status.__dict__.get('verif_final'), dt_new=L.status.dt_new,
                             e_est=L.status.get('error_embedded_estimate')))


def run(case):
    from pySDC.implementations.controller_classes.controller_nonMPI import controller_nonMPI
    from pySDC.implementations.sweeper_classes.generic_implicit import generic_implicit
    from pySDC.implementations.convergence_controller_classes.adaptivity import Adaptivity, AdaptivityPolynomialError
    from pySDC.implementations.convergence_controller_classes.basic_restarting import BasicRestartingNonMPI
    if case['problem'] == 'vdp':
        from pySDC.implementations.problem_classes.Van_der_Pol_implicit import vanderpol
        pc, pp = vanderpol, dict(mu=case.get('mu', 5.0), newton_tol=1e-10, newton_maxiter=99, u0=np.array([2.0, 0.0]))
    elif case['problem'] == 'lorenz':
        from pySDC.implementations.problem_classes.Lorenz import LorenzAttractor
        pc, pp = LorenzAttractor, dict(newton_tol=1e-10, newton_maxiter=99)
    else:
        from pySDC.implementations.problem_classes.TestEquation_0D import testequation0d
        pc, pp = testequation0d, dict(lambdas=np.array([-5.0 + 10j, -1.0]), u0=1.0)
    ad = dict(e_tol=case['e_tol'])
    for k in ('dt_min', 'dt_max', 'dt_slope_min', 'dt_slope_max', 'dt_rel_min_slope', 'beta', 'avoid_restarts'):
        if k in case:
            ad[k] = case[k]
    poly = case.get('flavour') == 'poly'
    if poly:
        # adaptivity for converged collocation problems: iterates to a residual tolerance, restarts when that is not reached within
        # maxiter (interpolating the iterate to the new nodes) AND when the polynomial error estimate is too large
        ad = dict(e_tol=case['e_tol'], restol_rel=1e-3, restart_at_maxiter=True)
    desc = dict(problem_class=pc, problem_params=pp, sweeper_class=generic_implicit,
                sweeper_params=dict(num_nodes=3, quad_type='RADAU-RIGHT', QI='LU'),
                level_params=dict(dt=case['dt'], restol=-1.0) if not poly else dict(dt=case['dt']), step_params=dict(maxiter=case.get('maxiter', 3)),
                convergence_controllers={(AdaptivityPolynomialError if poly else Adaptivity): ad, _RawProposal: {}, _Final: {},
                                         BasicRestartingNonMPI: dict(max_restarts=case.get('max_restarts', 10),
                                                                     crash_after_max_restarts=case.get('crash', True))})
    if case.get('outcomes'):
        desc['convergence_controllers'][_ScriptedOutcome] = dict(outcomes=tuple(case['outcomes']), e_tol=case['e_tol'])
    if case.get('script'):
        desc['convergence_controllers'][_ScriptedEstimate] = dict(ratios=tuple(case['script']), e_tol=case['e_tol'],
                                                                  per_iteration=bool(case.get('per_iteration')))
    c = controller_nonMPI(num_procs=1, controller_params=dict(logger_level=50, dump_setup=False, hook_class=[_Log], mssdc_jac=False),
                          description=desc)
    for S in c.MS:
        S.status.add_attr('verif_raw')
        S.status.add_attr('verif_final')
    P = c.MS[0].levels[0].prob
    exc = 'none'
    try:
        c.run(u0=P.u_exact(0.0), t0=0.0, Tend=case['tend'])
    except Exception as e:  # noqa
        exc = type(e).__name__
    att = [h for h in c.hooks if isinstance(h, _Log)][0].att
    beta = ad.get('beta', 0.9)
    e_tol = case['e_tol']
    floats = sorted({a['t'] for a in att} | {a['t'] + a['dt'] for a in att} | {a['dt'] for a in att}
                    | {a['final'][0] for a in att if a['final'] and a['final'][0] is not None})
    rank = {f: k + 1 for k, f in enumerate(floats)}
    out = []
    u0ids = {}
    for a in att:
        raw, e_est, order = a['raw'] if a['raw'] else (None, None, None)
        formula_ok = True
        if raw is not None and e_est is not None and not poly and order:
            formula_ok = bool(raw == beta * a['dt'] * (e_tol / e_est) ** (1.0 / order))
        fin = a['final'][0] if a['final'] else None
        exp = raw
        lower = False
        if raw is not None:
            smin, smax = case.get('dt_slope_min', 0), case.get('dt_slope_max', np.inf)
            if exp / a['dt'] < smin:
                exp = a['dt'] * smin
                lower = True
            elif exp / a['dt'] > smax:
                exp = a['dt'] * smax
            elif abs(exp / a['dt'] - 1) < case.get('dt_rel_min_slope', 0) and not a['final'][1]:
                exp = a['dt']  # change too small to bother -- only for steps that are NOT restarted
            if 'dt_min' in case or 'dt_max' in case:
                if exp < case.get('dt_min', 0):
                    exp = case.get('dt_min', 0)
                    lower = True
                elif exp > case.get('dt_max', np.inf):
                    exp = case['dt_max']
        clip_ok = bool(fin == exp) if raw is not None else True
        dtn = fin if fin is not None else a['dt']
        uid = u0ids.setdefault(a['u0h'], len(u0ids) + 1)
        out.append(dict(u0=uid, t=rank[a['t']], e=rank[a['t'] + a['dt']], dt=rank[a['dt']], dtnew=rank.get(dtn, 0), restart=bool(a['restart']), riar=int(a['riar']),
                        est_lt_tol=bool(a['e_est'] is not None and a['e_est'] < e_tol),  # the estimate the step ENDED with
                        formula_ok=formula_ok, clip_ok=clip_ok,
                        lower_limit_binds=bool(lower), tend_binds=bool(a['t'] + a['dt'] + dtn > case['tend'] - 1e-12),
                        reaches_tend=bool(a['t'] + a['dt'] >= case['tend'] - 1e-9 * a['dt'])))
    return dict(exc=exc, att=out, full=not poly, max_restarts=case.get('max_restarts', 10), raw=[(a['t'], a['dt'], a['restart'], a['e_est']) for a in att[:6]])
