------------------------------ MODULE SdcAlgebra ------------------------------
(***************************************************************************)
(* Exact (finite-field) semantics of the data operations that PfasstSerial *)
(* only sequences: sweeps, integration, residual, end point, restriction   *)
(* with FAS correction, prolongation.  Everything is linear algebra over   *)
(* Z_P on tiny instances; the real pySDC sweepers / BaseTransfer run on a  *)
(* Z_P data type (harness/zp.py) and are compared for EQUALITY.            *)
(*                                                                         *)
(* The sweep operators transcribe the ALGORITHM of update_nodes (gather    *)
(* known terms, then forward substitution node by node).  The properties   *)
(* state the ALGEBRA the algorithm must realise (C02, C10, C01).           *)
(*                                                                         *)
(* Vectors are tuples over 0..P-1, matrices tuples of rows.                *)
(* A level is a record                                                     *)
(*   [M, n, dt, Q, QI, QE, w, A, B, c, rightnode, collupdate]              *)
(*   f_impl(u) = A u,  f_expl(u) = B u + c (u.u)   (c*(u.u) componentwise) *)
(***************************************************************************)
EXTENDS Integers, Sequences, FiniteSets, SequencesExt, TLC

CONSTANT P

Zp == 0 .. P - 1
Md(x) == x % P

RECURSIVE SumSeq(_)
SumSeq(s) == IF s = <<>> THEN 0 ELSE Head(s) + SumSeq(Tail(s))

Zero(n) == [i \in 1 .. n |-> 0]
VAdd(a, b) == [i \in 1 .. Len(a) |-> Md(a[i] + b[i])]
VSub(a, b) == [i \in 1 .. Len(a) |-> Md(a[i] - b[i] + P)]
VSc(c, a)  == [i \in 1 .. Len(a) |-> Md(c * a[i])]
MV(Mx, v)  == [i \in 1 .. Len(Mx) |-> Md(SumSeq([j \in 1 .. Len(v) |-> Mx[i][j] * v[j]]))]
\* sum of a sequence of vectors of dimension n
RECURSIVE VSum(_, _)
VSum(s, n) == IF s = <<>> THEN Zero(n) ELSE VAdd(Head(s), VSum(Tail(s), n))
NNZ(v) == Cardinality({i \in 1 .. Len(v) : v[i] # 0})

Inv(a) == CHOOSE x \in 1 .. P - 1 : Md(a * x) = 1
Ident(n) == [i \in 1 .. n |-> [j \in 1 .. n |-> IF i = j THEN 1 ELSE 0]]
\* I - c*A
IminusCA(c, A) == [i \in 1 .. Len(A) |-> [j \in 1 .. Len(A) |-> Md((IF i = j THEN 1 ELSE 0) - c * A[i][j] + P * P)]]
Det(Mx) == IF Len(Mx) = 1 THEN Mx[1][1] ELSE Md(Mx[1][1] * Mx[2][2] - Mx[1][2] * Mx[2][1] + P * P)
Singular(Mx) == Det(Mx) = 0
\* solve Mx x = r for dimension 1 or 2
SolveLin(Mx, r) ==
    IF Len(Mx) = 1 THEN <<Md(Inv(Mx[1][1]) * r[1])>>
    ELSE LET d == Inv(Det(Mx))
         IN << Md(d * (Mx[2][2] * r[1] - Mx[1][2] * r[2] + P * P)),
               Md(d * (Mx[1][1] * r[2] - Mx[2][1] * r[1] + P * P)) >>

\* ---- right-hand sides ------------------------------------------------------
FI(L, u) == MV(L.A, u)
\* the explicit part may depend on time: forcing tn[m]*g at node m (tn[m] = image of the node time in Z_P)
FE(L, u, m) == VAdd(VAdd(MV(L.B, u), [i \in 1 .. Len(u) |-> Md(L.c * u[i] * u[i])]), VSc(L.tn[m], L.g))
FT(L, u, m) == VAdd(FI(L, u), FE(L, u, m))

\* ---- integrate(): dt * Q * F(U) ----------------------------------------------
Integrate(L, U) ==
    [m \in 1 .. L.M |-> VSum([j \in 1 .. L.M |-> VSc(Md(L.dt * L.Q[m][j]), FT(L, U[j], j))], L.n)]

TauAt(L, tau, m) == IF tau = <<>> THEN Zero(L.n) ELSE tau[m]

\* ---- residual: u0 + dt Q F(U) + tau - U -----------------------------------------
Defect(L, u0, U, tau) ==
    LET I == Integrate(L, U) IN [m \in 1 .. L.M |-> VSub(VAdd(VAdd(I[m], u0), TauAt(L, tau, m)), U[m])]
ResidualNorms(L, u0, U, tau) ==   \* <<max over nodes, last node, nnz(u0)>> ; abs() of a Z_p vector = number of non-zeros
    LET D == Defect(L, u0, U, tau)
        N == [m \in 1 .. L.M |-> NNZ(D[m])]
    IN << CHOOSE x \in {N[m] : m \in 1 .. L.M} : \A m \in 1 .. L.M : N[m] <= x, N[L.M], NNZ(u0) >>

\* ---- end point ------------------------------------------------------------------
EndPoint(L, u0, U, tau) ==
    IF L.rightnode /\ ~ L.collupdate THEN U[L.M]
    ELSE VAdd(VAdd(u0, VSum([m \in 1 .. L.M |-> VSc(Md(L.dt * L.w[m]), FT(L, U[m], m))], L.n)),
              IF tau = <<>> THEN Zero(L.n) ELSE tau[L.M])

\* ---- sweeps: transcription of update_nodes ------------------------------------------
\* kind "impl": generic_implicit (whole right-hand side implicit: B = 0, c = 0 expected)
\* kind "imex": imex_1st_order ; kind "expl": explicit
Known(L, kind, u0, U, tau) ==
    [m \in 1 .. L.M |->
        LET terms == [j \in 1 .. L.M |->
                CASE kind = "impl" -> VSc(Md(L.dt * (L.Q[m][j] - L.QI[m][j] + P)), FT(L, U[j], j))
                  [] kind = "expl" -> VSc(Md(L.dt * (L.Q[m][j] - L.QE[m][j] + P)), FT(L, U[j], j))
                  [] kind = "imex" -> VAdd(VSc(Md(L.dt * (L.Q[m][j] - L.QI[m][j] + P)), FI(L, U[j])),
                                           VSc(Md(L.dt * (L.Q[m][j] - L.QE[m][j] + P)), FE(L, U[j], j)))]
        IN VAdd(VAdd(VSum(terms, L.n), u0), TauAt(L, tau, m))]

RECURSIVE Forward(_, _, _, _, _)
\* Unew holds the already updated nodes 1..m-1
Forward(L, kind, known, Unew, m) ==
    IF m > L.M THEN Unew
    ELSE LET lower == [j \in 1 .. m - 1 |->
                CASE kind = "impl" -> VSc(Md(L.dt * L.QI[m][j]), FT(L, Unew[j], j))
                  [] kind = "expl" -> VSc(Md(L.dt * L.QE[m][j]), FT(L, Unew[j], j))
                  [] kind = "imex" -> VAdd(VSc(Md(L.dt * L.QI[m][j]), FI(L, Unew[j])), VSc(Md(L.dt * L.QE[m][j]), FE(L, Unew[j], j)))]
             rhs == VAdd(known[m], VSum(lower, L.n))
             um  == IF kind = "expl" THEN rhs
                    ELSE IF kind = "impl" /\ Md(L.dt * L.QI[m][m]) = 0 THEN rhs
                    ELSE SolveLin(IminusCA(Md(L.dt * L.QI[m][m]), L.A), rhs)
         IN Forward(L, kind, known, Append(Unew, um), m + 1)

\* kind "multi": multi_implicit -- two implicit parts f1 = A u (preconditioner QI = Q1) and f2 = B u (preconditioner QE = Q2,
\* lower triangular WITH diagonal), two successive solves per node
FB(L, u) == MV(L.B, u)
KnownMulti(L, u0, U, tau) ==
    [m \in 1 .. L.M |->
        VAdd(VAdd(VSum([j \in 1 .. L.M |-> VAdd(VSc(Md(L.dt * (L.Q[m][j] - L.QI[m][j] + P)), FI(L, U[j])),
                                                 VSc(Md(L.dt * L.Q[m][j]), FB(L, U[j])))], L.n), u0), TauAt(L, tau, m))]
Q2Int(L, U) == [m \in 1 .. L.M |-> VSum([j \in 1 .. L.M |-> VSc(Md(L.dt * L.QE[m][j]), FB(L, U[j]))], L.n)]
RECURSIVE ForwardMulti(_, _, _, _, _)
ForwardMulti(L, known, q2, Unew, m) ==
    IF m > L.M THEN Unew
    ELSE LET r1 == VAdd(known[m], VSum([j \in 1 .. m - 1 |-> VSc(Md(L.dt * L.QI[m][j]), FI(L, Unew[j]))], L.n))
             v  == SolveLin(IminusCA(Md(L.dt * L.QI[m][m]), L.A), r1)
             r2 == VAdd(VSub(v, q2[m]), VSum([j \in 1 .. m - 1 |-> VSc(Md(L.dt * L.QE[m][j]), FB(L, Unew[j]))], L.n))
             um == SolveLin(IminusCA(Md(L.dt * L.QE[m][m]), L.B), r2)
         IN ForwardMulti(L, known, q2, Append(Unew, um), m + 1)

\* kind "rk": Runge-Kutta stage form U_m = u0 + dt sum_{j<=m} a_mj F(U_j) with the Butcher matrix stored in QI
\* (RungeKutta.update_nodes: no old terms, no tau; implicit solve only where the diagonal entry is non-zero)
Sweep(L, kind, u0, U, tau) ==
    IF kind = "rk" THEN Forward(L, "impl", [m \in 1 .. L.M |-> u0], <<>>, 1)
    ELSE IF kind = "multi" THEN ForwardMulti(L, KnownMulti(L, u0, U, tau), Q2Int(L, U), <<>>, 1)
    ELSE Forward(L, kind, Known(L, kind, u0, U, tau), <<>>, 1)
\* end value of a Runge-Kutta step: last stage if the last row of the Butcher matrix equals the weights, else u0 + dt sum w F
EndPointRK(L, u0, U) ==
    IF L.QI[L.M] = L.w THEN U[L.M]
    ELSE VAdd(u0, VSum([m \in 1 .. L.M |-> VSc(Md(L.dt * L.w[m]), FT(L, U[m], m))], L.n))

SweepDefined(L, kind) ==
    CASE kind = "expl"  -> TRUE
      [] kind = "multi" -> \A m \in 1 .. L.M : ~ Singular(IminusCA(Md(L.dt * L.QI[m][m]), L.A))
                                                /\ ~ Singular(IminusCA(Md(L.dt * L.QE[m][m]), L.B))
      [] kind \in {"rk", "impl"} -> \A m \in 1 .. L.M : Md(L.dt * L.QI[m][m]) = 0 \/ ~ Singular(IminusCA(Md(L.dt * L.QI[m][m]), L.A))
      [] OTHER -> \A m \in 1 .. L.M : ~ Singular(IminusCA(Md(L.dt * L.QI[m][m]), L.A))

\* ---- C02: the algebraic iteration the sweep must realise ------------------------------
\* (I - dt QD (x) A_impl) Unew - dt QE (x) f_expl(Unew) = u0 + dt (Q - QD) (x) f_impl(U) + dt (Q - QE) (x) f_expl(U) + tau
PicardHolds(L, kind, u0, U, tau, Unew) ==
    IF kind = "multi" THEN
        \* (I - dt Q2_mm B) U_m - sum_{j<m} dt Q2_mj f2(U_j) + dt Q2 f2(U^old)_m = v_m ,
        \* (I - dt Q1_mm A) v_m = u0 + tau + dt Q (f1+f2)(U^old) - dt Q1 f1(U^old) + sum_{j<m} dt Q1_mj f1(U_j)
        \A m \in 1 .. L.M :
            LET v == VAdd(VSub(Unew[m], VSum([j \in 1 .. m |-> VSc(Md(L.dt * L.QE[m][j]), FB(L, Unew[j]))], L.n)), Q2Int(L, U)[m])
            IN VSub(v, VSc(Md(L.dt * L.QI[m][m]), FI(L, v)))
                 = VAdd(KnownMulti(L, u0, U, tau)[m], VSum([j \in 1 .. m - 1 |-> VSc(Md(L.dt * L.QI[m][j]), FI(L, Unew[j]))], L.n))
    ELSE IF kind = "rk" THEN \A m \in 1 .. L.M :
            Unew[m] = VAdd(u0, VSum([j \in 1 .. m |-> VSc(Md(L.dt * L.QI[m][j]), FT(L, Unew[j], j))], L.n))
    ELSE
    \A m \in 1 .. L.M :
        LET lhs == CASE kind = "impl" -> VSub(Unew[m], VSum([j \in 1 .. L.M |-> VSc(Md(L.dt * L.QI[m][j]), FT(L, Unew[j], j))], L.n))
                     [] kind = "expl" -> VSub(Unew[m], VSum([j \in 1 .. L.M |-> VSc(Md(L.dt * L.QE[m][j]), FT(L, Unew[j], j))], L.n))
                     [] kind = "imex" -> VSub(Unew[m], VSum([j \in 1 .. L.M |->
                                                VAdd(VSc(Md(L.dt * L.QI[m][j]), FI(L, Unew[j])), VSc(Md(L.dt * L.QE[m][j]), FE(L, Unew[j], j)))], L.n))
        IN lhs = Known(L, kind, u0, U, tau)[m]

\* ---- C01: a fixed point of the sweep has zero defect (for ANY lower-triangular preconditioner) ----
FixedPointHasZeroDefect(L, kind, u0, U, tau) ==
    Sweep(L, kind, u0, U, tau) = U => \A m \in 1 .. L.M : Defect(L, u0, U, tau)[m] = Zero(L.n)
ZeroDefectIsFixedPoint(L, kind, u0, U, tau) ==
    (\A m \in 1 .. L.M : Defect(L, u0, U, tau)[m] = Zero(L.n)) => Sweep(L, kind, u0, U, tau) = U

\* ---- transfer (BaseTransfer.restrict / prolong / prolong_f) -------------------------------
\* T = [Rc (Mc x Mf), Pc (Mf x Mc), Rs (nc x nf), Ps (nf x nc)]
RestrictLv(F, G, T, u0F, UF, tauF) ==
    LET tmpu == [m \in 1 .. F.M |-> MV(T.Rs, UF[m])]
        Gu0  == MV(T.Rs, u0F)
        GU   == [k \in 1 .. G.M |-> VSum([m \in 1 .. F.M |-> VSc(T.Rc[k][m], tmpu[m])], G.n)]
        tauG == Integrate(G, GU)
        tauFi == Integrate(F, UF)
        tmpt == [m \in 1 .. F.M |-> MV(T.Rs, tauFi[m])]
        tauFG == [k \in 1 .. G.M |-> VSum([m \in 1 .. F.M |-> VSc(T.Rc[k][m], tmpt[m])], G.n)]
        base == [k \in 1 .. G.M |-> VSub(tauFG[k], tauG[k])]
        inh  == IF tauF = <<>> THEN base
                ELSE [k \in 1 .. G.M |-> VAdd(base[k], VSum([m \in 1 .. F.M |-> VSc(T.Rc[k][m], MV(T.Rs, tauF[m]))], G.n))]
    IN [u0 |-> Gu0, U |-> GU, tau |-> inh, Uold |-> GU]

ProlongLv(F, G, T, UF, GU, GUold) ==
    LET tmp == [m \in 1 .. G.M |-> MV(T.Ps, VSub(GU[m], GUold[m]))]
    IN [k \in 1 .. F.M |-> VAdd(UF[k], VSum([m \in 1 .. G.M |-> VSc(T.Pc[k][m], tmp[m])], F.n))]

\* prolong_f (base_transfer_params finter = True): the values are corrected as in prolong; the STORED right-hand sides are
\* corrected by the interpolated change of the coarse right-hand sides instead of being re-evaluated (implicit and explicit
\* part separately).  FfI/FfE are the stored fine right-hand sides before the call, GfI/GfE the coarse ones, GfIold/GfEold fold.
ProlongFLv(F, G, T, UF, GU, GUold) ==
    LET dI == [m \in 1 .. G.M |-> MV(T.Ps, VSub(FI(G, GU[m]), FI(G, GUold[m])))]
        dE == [m \in 1 .. G.M |-> MV(T.Ps, VSub(FE(G, GU[m], m), FE(G, GUold[m], m)))]
    IN [U  |-> ProlongLv(F, G, T, UF, GU, GUold),
        fI |-> [k \in 1 .. F.M |-> VAdd(FI(F, UF[k]), VSum([m \in 1 .. G.M |-> VSc(T.Pc[k][m], dI[m])], F.n))],
        fE |-> [k \in 1 .. F.M |-> VAdd(FE(F, UF[k], k), VSum([m \in 1 .. G.M |-> VSc(T.Pc[k][m], dE[m])], F.n))]]

\* ---- one multilevel iteration of one step (controller_nonMPI: IT_DOWN, IT_COARSE, IT_UP, IT_FINE) -------------------------
\* nsw[l] = sweeps on level l (1 = finest); the coarsest level always sweeps once
\* TLC passes operator arguments unevaluated and evaluates them again at every use; binding through a singleton set makes the
\* value concrete once (without it the nested iterations below cost (number of uses)^(depth))
BindIn(e, F(_)) == CHOOSE r \in {F(v) : v \in {e}} : TRUE
RECURSIVE SweepN(_, _, _, _, _, _)
SweepN(L, kind, u0, U, tau, n) ==
    IF n = 0 THEN U ELSE BindIn(Sweep(L, kind, u0, U, tau), LAMBDA V : SweepN(L, kind, u0, V, tau, n - 1))
\* two levels: restrict, coarse sweep, prolong the coarse correction, nsw[1] fine sweeps
MLIter2(F, G, T, kind, nsw, u0, U) ==
    BindIn(RestrictLv(F, G, T, u0, U, <<>>), LAMBDA R :
    BindIn(Sweep(G, kind, R.u0, R.U, R.tau), LAMBDA GU :
    BindIn(ProlongLv(F, G, T, U, GU, R.Uold), LAMBDA U1 :
        SweepN(F, kind, u0, U1, <<>>, nsw[1]))))
\* three levels: the middle level sweeps nsw[2] times on the way down (after the restriction from the fine level) AND nsw[2]
\* times on the way up (after the prolongation from the coarsest level); its tau correction is the one inherited at restriction
MLIter3(F, G, H, T1, T2, kind, nsw, u0, U) ==
    BindIn(RestrictLv(F, G, T1, u0, U, <<>>), LAMBDA R1 :
    BindIn(SweepN(G, kind, R1.u0, R1.U, R1.tau, nsw[2]), LAMBDA GU1 :
    BindIn(RestrictLv(G, H, T2, R1.u0, GU1, R1.tau), LAMBDA R2 :
    BindIn(Sweep(H, kind, R2.u0, R2.U, R2.tau), LAMBDA HU :
    BindIn(ProlongLv(G, H, T2, GU1, HU, R2.Uold), LAMBDA GU2 :
    BindIn(SweepN(G, kind, R1.u0, GU2, R1.tau, nsw[2]), LAMBDA GU3 :
    BindIn(ProlongLv(F, G, T1, U, GU3, R1.Uold), LAMBDA U1 :
        SweepN(F, kind, u0, U1, <<>>, nsw[1]))))))))
RECURSIVE MLIterate(_, _, _, _, _, _, _)
\* K iterations; lv = sequence of levels (2 or 3), tr = sequence of transfers
MLIterate(lv, tr, kind, nsw, u0, U, K) ==
    IF K = 0 THEN U
    ELSE BindIn(IF Len(lv) = 2 THEN MLIter2(lv[1], lv[2], tr[1], kind, nsw, u0, U)
                ELSE MLIter3(lv[1], lv[2], lv[3], tr[1], tr[2], kind, nsw, u0, U),
                LAMBDA V : MLIterate(lv, tr, kind, nsw, u0, V, K - 1))
MLDefined(lv, kind) == \A l \in 1 .. Len(lv) : SweepDefined(lv[l], kind)
\* linearity in the iterate (the iteration is affine: one iteration matrix plus a source term) -- for linear right-hand sides
\* (c = 0) the difference of two iterates is propagated independently of u0: this is what "equals the multigrid-in-time
\* iteration matrix applied to the iterate" means for the transcription
MLAffine(lv, tr, kind, nsw, u0, U, V) ==
    LET n == lv[1].n  M == lv[1].M
        D(X, Y) == [m \in 1 .. M |-> VSub(X[m], Y[m])]
        Z == [m \in 1 .. M |-> Zero(n)]
    IN BindIn(D(U, V), LAMBDA W :
       BindIn(MLIterate(lv, tr, kind, nsw, u0, U, 1), LAMBDA A1 :
       BindIn(MLIterate(lv, tr, kind, nsw, u0, V, 1), LAMBDA A2 :
       BindIn(MLIterate(lv, tr, kind, nsw, Zero(n), W, 1), LAMBDA B1 :
       BindIn(MLIterate(lv, tr, kind, nsw, Zero(n), Z, 1), LAMBDA B2 :
           D(A1, A2) = D(B1, B2))))))

\* ---- C10 ------------------------------------------------------------------------------
\* hypotheses under which the FAS identities hold (they are what pySDC's own transfer matrices provide)
RowsSumToOne(Rc, Mc, Mf) == \A k \in 1 .. Mc : Md(SumSeq([m \in 1 .. Mf |-> Rc[k][m]])) = 1
\* coarse defect right after restriction = restricted fine defect
CoarseDefectIsRestrictedFineDefect(F, G, T, u0F, UF, tauF) ==
    LET R == RestrictLv(F, G, T, u0F, UF, tauF)
        DF == Defect(F, u0F, UF, tauF)
        DG == Defect(G, R.u0, R.U, R.tau)
    IN \A k \in 1 .. G.M : DG[k] = VSum([m \in 1 .. F.M |-> VSc(T.Rc[k][m], MV(T.Rs, DF[m]))], G.n)
\* tau definition
TauDefinition(F, G, T, u0F, UF, tauF) ==
    LET R == RestrictLv(F, G, T, u0F, UF, tauF)
        IF_ == Integrate(F, UF)
        IG == Integrate(G, R.U)
    IN \A k \in 1 .. G.M :
         R.tau[k] = VAdd(VSub(VSum([m \in 1 .. F.M |-> VSc(T.Rc[k][m], MV(T.Rs, IF_[m]))], G.n), IG[k]),
                         IF tauF = <<>> THEN Zero(G.n) ELSE VSum([m \in 1 .. F.M |-> VSc(T.Rc[k][m], MV(T.Rs, tauF[m]))], G.n))
\* a down-up cycle leaves a fine fixed point unchanged
DownUpPreservesFixedPoint(F, G, T, kindG, u0F, UF, tauF) ==
    ((\A m \in 1 .. F.M : Defect(F, u0F, UF, tauF)[m] = Zero(F.n)) /\ SweepDefined(G, kindG)) =>
        LET R == RestrictLv(F, G, T, u0F, UF, tauF)
            GUn == Sweep(G, kindG, R.u0, R.U, R.tau)
        IN ProlongLv(F, G, T, UF, GUn, R.Uold) = UF
\* ... and with prolong_f neither the values nor the stored right-hand sides change
DownUpFPreservesFixedPoint(F, G, T, kindG, u0F, UF, tauF) ==
    ((\A m \in 1 .. F.M : Defect(F, u0F, UF, tauF)[m] = Zero(F.n)) /\ SweepDefined(G, kindG)) =>
        LET R == RestrictLv(F, G, T, u0F, UF, tauF)
            GUn == Sweep(G, kindG, R.u0, R.U, R.tau)
            Pf == ProlongFLv(F, G, T, UF, GUn, R.Uold)
        IN /\ Pf.U = UF
           /\ \A k \in 1 .. F.M : Pf.fI[k] = FI(F, UF[k]) /\ Pf.fE[k] = FE(F, UF[k], k)
=============================================================================
