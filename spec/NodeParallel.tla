----------------------------- MODULE NodeParallel -----------------------------
(***************************************************************************)
(* Node-parallel SDC sweepers: one rank per collocation node, every rank   *)
(* runs the same sequence of sweeper operations (PROG), each operation is  *)
(* a fixed sequence of collectives (NodeParCalls).  Collectives are        *)
(* matched by call order on the communicator.  A rank ENTERS a collective  *)
(* (its contribution is taken at that moment) and LEAVES it when MPI       *)
(* allows: the root of a reduction needs everybody, a non-root may run     *)
(* ahead; a broadcast root may run ahead, the others need the root.        *)
(* TLC explores every interleaving of Enter / Leave.                       *)
(*  CollectiveMatch      ranks meeting in one slot issue the same call     *)
(*  GenerationConsistent every reduction combines contributions of the     *)
(*                       same sweep generation (no rank that ran ahead     *)
(*                       contributes newer or older data)                  *)
(*  deadlock freedom, termination (under weak fairness)                    *)
(* NOTAU = ranks WITHOUT a tau correction: {} or all ranks is what the     *)
(* code guarantees (restrict sets tau on every rank); a proper subset is   *)
(* the documented non-theorem (collective mismatch).                       *)
(***************************************************************************)
EXTENDS NodeParCalls, FiniteSets, TLC

CONSTANTS M, PROG, NOTAU

Ranks == 0 .. M - 1

RECURSIVE ProgFrom(_, _)
\* calls of rank r from operation i on, each tagged with <<kind, root, op index, is-last-of-its-op>>
ProgFrom(r, i) ==
    IF i > Len(PROG) THEN <<>>
    ELSE LET c == CallsOf(PROG[i], r, M, r \notin NOTAU)
         IN [j \in 1 .. Len(c) |-> <<c[j][1], c[j][2], i, j = Len(c)>>] \o ProgFrom(r, i + 1)
Program == [r \in Ranks |-> ProgFrom(r, 1)]

VARIABLES pc,      \* rank -> number of collectives it has left
          inside,  \* rank -> it has entered collective pc+1 and not left
          gen,     \* rank -> generation of its node value
          cg       \* slot -> rank -> generation contributed (-1: not arrived)

vars == <<pc, inside, gen, cg>>

MaxLen == LET S == {Len(Program[r]) : r \in Ranks} IN CHOOSE x \in S : \A y \in S : y <= x

Init == /\ pc = [r \in Ranks |-> 0] /\ inside = [r \in Ranks |-> FALSE] /\ gen = [r \in Ranks |-> 0]
        /\ cg = [k \in 1 .. MaxLen |-> [r \in Ranks |-> -1]]

Arrived(k) == {r \in Ranks : cg[k][r] # -1}

Enter(r) == /\ ~ inside[r] /\ pc[r] < Len(Program[r])
            /\ inside' = [inside EXCEPT ![r] = TRUE]
            /\ cg' = [cg EXCEPT ![pc[r] + 1][r] = gen[r]]
            /\ UNCHANGED <<pc, gen>>

Leave(r) == /\ inside[r]
            /\ LET k == pc[r] + 1 c == Program[r][k] IN
               /\ MayLeave(c[1], c[2], r, Arrived(k), M)
               /\ pc' = [pc EXCEPT ![r] = k]
               /\ gen' = [gen EXCEPT ![r] = IF c[4] /\ Updates(PROG[c[3]]) THEN @ + 1 ELSE @]
            /\ inside' = [inside EXCEPT ![r] = FALSE]
            /\ UNCHANGED cg

Finished == \A r \in Ranks : pc[r] = Len(Program[r]) /\ ~ inside[r]
Next == (\E r \in Ranks : Enter(r) \/ Leave(r)) \/ (Finished /\ UNCHANGED vars)
Spec == Init /\ [][Next]_vars
FairSpec == Spec /\ \A r \in Ranks : WF_vars(Enter(r) \/ Leave(r))

TypeOK == /\ pc \in [Ranks -> 0 .. MaxLen] /\ inside \in [Ranks -> BOOLEAN] /\ gen \in [Ranks -> 0 .. Len(PROG)]
CollectiveMatch ==
    \A k \in 1 .. MaxLen : \A r, q \in Arrived(k) :
        /\ k <= Len(Program[r]) /\ k <= Len(Program[q])
        /\ Program[r][k][1] = Program[q][k][1] /\ Program[r][k][2] = Program[q][k][2]
GenerationConsistent == \A k \in 1 .. MaxLen : \A r, q \in Arrived(k) : cg[k][r] = cg[k][q]
\* nobody is more than one operation ahead of the slowest rank's current collective's operation boundary:
\* a rank cannot complete an operation that contains a reduction rooted at itself before everybody has entered it
NoRunaway == \A r, q \in Ranks : gen[r] <= gen[q] + 1
\* at the end no collective is left that only some ranks took part in
NoPartialCollective == Finished => \A k \in 1 .. MaxLen : Arrived(k) \in {{}, Ranks}
Terminates == <>Finished
=============================================================================
