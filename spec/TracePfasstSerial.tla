-------------------------- MODULE TracePfasstSerial --------------------------
(***************************************************************************)
(* Trace validation of recorded runs of the real controller_nonMPI against *)
(* PfasstSerial.  A batch (JSON file named by env TRACE_FILE) holds many   *)
(* runs that share the constants of this TLC invocation.  Every line of a  *)
(* run is one action of the specification:                                 *)
(*    "rb"  restart_block (run start / block end)                          *)
(*    "st"  one call of pfasst()                                           *)
(*    "end" return / exception of run()                                    *)
(* The verdict is TOTAL: the trace specification never blocks.  For every  *)
(* line the specification's action is applied to the current state with    *)
(* the logged oracle, the resulting state is compared field by field with  *)
(* the logged state, each difference and each violated property clause is  *)
(* added to `viol` as <<line, clause>>, and the state is then re-synchron- *)
(* ised with the logged one so that the rest of the run is still checked.  *)
(* At the end of each run the verdict is printed as one JSON line.         *)
(***************************************************************************)
EXTENDS PfasstSerial, Json, IOUtils, TLCExt

Batch == JsonDeserialize(IOEnv.TRACE_FILE)
Runs  == Batch.runs
NRuns == Len(Runs)

VARIABLES
    tid,    \* index of the run being validated
    l,      \* index of the next line of that run
    viol,   \* set of <<line, clause>> found so far in this run
    gram,   \* callback-grammar monitor state per slot
    last    \* last "st" line (hash snapshot) of the current block, <<>> if none

tvars == <<vars, tid, l, viol, gram, last>>

Ev     == Runs[tid].ev
Line   == Ev[l]
HasLine == tid <= NRuns /\ l <= Len(Ev)

\* 0-based access into JSON arrays
At(q, i) == q[i + 1]

V(cond, clause) == IF cond THEN {} ELSE {<<l, clause>>}

-----------------------------------------------------------------------------
(* callback grammar per step:                                              *)
(*   pre_step (pre_predict post_predict)?                                  *)
(*   (pre_iteration (pre_sweep post_sweep)+ post_iteration)* post_step     *)
GramInit == [p \in Slots |-> "idle"]

GramStep(g, e) ==
    \* g = [state : [Slots -> STRING], bad : BOOLEAN]
    LET name == e[1]
        p == e[2]
        cur == g.state[p]
        ok(to) == [g EXCEPT !.state[p] = to]
        bad == [g EXCEPT !.bad = TRUE]
    IN IF p \notin Slots THEN g ELSE
       CASE name = "pre_step"       -> IF cur = "idle" THEN ok("started") ELSE bad
         [] name = "pre_predict"    -> IF cur = "started" THEN ok("predicting") ELSE bad
         [] name = "post_predict"   -> IF cur = "predicting" THEN ok("predicted") ELSE bad
         [] name = "pre_iteration"  -> IF cur \in {"started", "predicted", "iterated"} THEN ok("iterating") ELSE bad
         [] name = "pre_sweep"      -> IF cur \in {"iterating", "swept"} THEN ok("sweeping") ELSE bad
         [] name = "post_sweep"     -> IF cur = "sweeping" THEN ok("swept") ELSE bad
         [] name = "post_iteration" -> IF cur = "swept" THEN ok("iterated") ELSE bad
         [] name = "post_step"      -> IF cur \in {"started", "predicted", "iterated"} THEN ok("idle") ELSE bad
         [] OTHER -> g

GramRun(g0, evs) == FoldLeft(GramStep, [state |-> g0, bad |-> FALSE], evs)

\* every observed receive carries the tag (level, iteration of the receiver, slot of the sender)
\* and delivers exactly the sender's end value
RecvOK(evs) ==
    \A i \in 1 .. Len(evs) :
        evs[i][1] = "recv" =>
            LET x == evs[i][4] IN x[1] = <<evs[i][3], x[2], x[3]>>
RecvValOK(evs) ==
    \A i \in 1 .. Len(evs) :
        evs[i][1] = "recv" => LET x == evs[i][4] IN x[4] = x[5]

-----------------------------------------------------------------------------
(* oracle of an IT_CHECK line: aligned with Line.running                   *)
OrcOf(ln) ==
    [p \in Running(st) |->
        LET idx == CHOOSE i \in 1 .. Len(ln.running) : ln.running[i] = p
            o == ln.orc[idx]
        IN [res |-> o.res, rs |-> o.rs, dtn |-> o.dtn, fd |-> o.fd, fc |-> o.fc]]

OrcUsable(ln) == Len(ln.orc) = Len(ln.running) /\ {ln.running[i] : i \in 1 .. Len(ln.running)} = Running(st)

ErrName(e) == CASE e = "none" -> "none"
                [] e = "CommunicationError" -> "commerr"
                [] e = "ConvergenceError" -> "crashed"
                [] e = "ControllerError" -> "ctrlerr"
                [] OTHER -> e
ModelErr(e) == IF e \in {"stageerr", "prederr", "nothing"} THEN "ctrlerr" ELSE e
ModelErrPhase(c) == CASE c = "ConvergenceError" -> "crashed"
                      [] c = "CommunicationError" -> "commerr"
                      [] c = "ControllerError" -> "ctrlerr"
                      [] OTHER -> "othererr"

\* merge the logged per-step fields of an "st" line into a step state
Merged(nx, ln) ==
    LET n == ln.nact
        f(field, old) == [p \in Slots |-> IF p < n THEN At(field, p) ELSE old[p]]
    IN [nx EXCEPT
          !.stage  = f(ln.stage, nx.stage),
          !.iter   = f(ln.iter, nx.iter),
          !.done   = f(ln.done, nx.done),
          !.pdone  = f(ln.pdone, nx.pdone),
          !.fdone  = f(ln.fdone, nx.fdone),
          !.rs     = f(ln.rs, nx.rs),
          !.lsweep = f(ln.lsweep, nx.lsweep),
          !.dtn    = f(ln.dtn, nx.dtn),
          !.riar   = [p \in Slots |-> At(ln.riar, p)],
          !.tag    = [p \in Slots |-> IF p < n THEN [lv \in Levels |-> At(At(ln.tag, p), lv)] ELSE nx.tag[p]],
          !.err    = "none"]

\* field-by-field comparison of the model's post-state with an "st" line
StageDiffs(nx, ln, sg) ==
    LET n == ln.nact
        A == 0 .. n - 1
    IN  V(\A p \in A : nx.stage[p] = At(ln.stage, p), "conf.stage")
   \cup V(\A p \in A : nx.iter[p] = At(ln.iter, p), "conf.iter")
   \cup V(\A p \in A : nx.done[p] = At(ln.done, p), "conf.done")
   \cup V(\A p \in A : nx.pdone[p] = At(ln.pdone, p), "conf.pdone")
   \cup V(\A p \in A : nx.fdone[p] = At(ln.fdone, p), "conf.fdone")
   \cup V(\A p \in A : nx.rs[p] = At(ln.rs, p), "conf.restart")
   \cup V(\A p \in A : nx.lsweep[p] = At(ln.lsweep, p), "conf.sweep")
   \cup V(\A p \in A : nx.dtn[p] = At(ln.dtn, p), "conf.dtnew")
   \cup V(\A p \in Slots : nx.riar[p] = At(ln.riar, p), "conf.riar")
   \cup V(\A p \in A : \A lv \in Levels : nx.tag[p][lv] = At(At(ln.tag, p), lv), "conf.tag")
   \* every forward transfer is consumed on the level it was sent on: the number of receives observed for (step, level) in this
   \* stage is the number the model performs (zv counts the modifications of u[0]: one per receive, one per restriction into
   \* the level -- IT_DOWN restricts once into every level below the finest)
   \cup V(sg \in {"IT_CHECK", "IT_FINE", "IT_DOWN", "IT_COARSE", "IT_UP"} =>
            \A p \in A : \A lv \in Levels :
                Cardinality({i \in 1 .. Len(ln.evs) : ln.evs[i][1] = "recv" /\ ln.evs[i][2] = p /\ ln.evs[i][3] = lv})
                  = nx.zv[p][lv] - st.zv[p][lv] - (IF sg = "IT_DOWN" /\ lv >= 1 /\ st.stage[p] # "DONE" THEN 1 ELSE 0),
        "conf.recv_levels")
   \* values: whenever the model says u[0] of p is the current end value of p-1, the hashes must agree
   \cup V(\A p \in A : \A lv \in Levels :
            (p > 0 /\ nx.src[p][lv] = <<p - 1, nx.uev[p - 1][lv]>> /\ nx.uev[p - 1][lv] # NoEnd)
                => At(At(ln.h0, p), lv) = At(At(ln.he, p - 1), lv),
        "val.recv_is_prev_uend")
   \* a step that finished holds an end value computed from its current node values
   \cup V(\A p \in A : (st.stage[p] # "DONE" /\ At(ln.stage, p) = "DONE") => At(ln.endfresh, p), "val.uend_fresh")
   \* the residual used for the decision was computed from the values the step holds at that moment
   \cup V(sg = "IT_CHECK" => \A i \in 1 .. Len(ln.orc) : ln.orc[i].fresh, "val.residual_fresh")
   \* ... and equals the independently recomputed defect norm in the configured residual type (unscripted runs)
   \cup V(sg = "IT_CHECK" => \A i \in 1 .. Len(ln.orc) : ln.orc[i].resval_ok, "val.residual_value")
   \* the residual reported after EVERY fine sweep (not only the last one of an iteration) is the defect of the current values
   \cup V(ln.sres_ok, "val.residual_after_sweep")
   \* CheckConvergence outcome equals the stopping rule applied to its inputs
   \cup V(sg = "IT_CHECK" => \A i \in 1 .. Len(ln.orc) :
            LET p == ln.running[i] o == ln.orc[i] IN
            o.done201 = ( ( (st.iter[p] >= MAXITER) \/ (o.res /\ (st.iter[p] > 0 \/ st.lsweep[p] > 0)) \/ o.fd ) /\ ~ o.fc ),
        "stop.rule")
   \* "after at least one sweep": a step declared finished by residual alone has swept on this attempt
   \cup V(sg = "IT_CHECK" => \A i \in 1 .. Len(ln.orc) :
            LET p == ln.running[i] o == ln.orc[i] IN
            (At(ln.stage, p) = "DONE" /\ st.iter[p] < MAXITER /\ ~ o.fd) => st.swept[p],
        "stop.after_sweep")

-----------------------------------------------------------------------------
(* property clauses evaluated on the OBSERVED (merged) state                *)
ObsClauses(s, n) ==
    LET A == 0 .. n - 1
        R == {p \in A : s.stage[p] # "DONE"}
    IN  V(\A p, q \in A : (q < p /\ s.stage[p] = "DONE") => s.stage[q] = "DONE", "obs.finish_in_order")
   \cup V(\A p, q \in R : s.stage[p] = s.stage[q], "obs.lockstep")
   \cup V(\A p, q \in R : s.iter[p] = s.iter[q], "obs.iter_equal")
   \cup V(\A p \in A : s.iter[p] <= MAXITER \/ TRUE \in O_FC, "obs.iter_budget")
   \cup V(\A p \in A : s.stage[p] = "DONE" => s.done[p], "obs.done_flag")
   \cup V((A2D /\ R = {}) => \A p, q \in A : s.iter[p] = s.iter[q], "obs.a2d_equal_iters")

DoneStableObs(s0, s1, n) ==
    \A p \in 0 .. n - 1 : s0.stage[p] = "DONE" =>
        /\ s1.stage[p] = "DONE" /\ s1.iter[p] = s0.iter[p] /\ s1.done[p] = s0.done[p] /\ s1.rs[p] = s0.rs[p]

HashStable(ln0, ln1, n) ==
    \* the data of a finished step are never changed again
    ln0 = <<>> \/ \A p \in 0 .. n - 1 : At(ln0.stage, p) = "DONE" =>
        /\ At(ln1.h0, p) = At(ln0.h0, p) /\ At(ln1.hn, p) = At(ln0.hn, p) /\ At(ln1.he, p) = At(ln0.he, p)

-----------------------------------------------------------------------------
TraceInit ==
    /\ Init
    /\ tid = 1 /\ l = 1 /\ viol = {} /\ gram = GramInit /\ last = <<>>

\* run start: first restart_block
TraceRunStart ==
    /\ HasLine /\ Line.k = "rb" /\ phase = "init"
    /\ LET ln == Line
           \* the first block is laid out with the step sizes the steps hold (all DT0 for a fresh controller)
           tm == StartTimes([p \in Slots |-> At(ln.dt, p)])
           n  == NumActive(tm)
       IN /\ viol' = viol
                \cup V(ln.nact = n, "conf.start.nact")
                \cup V(\A p \in Slots : At(ln.time, p) = tm[p], "conf.start.time")
                \cup V([p \in Slots |-> At(ln.dt, p)] \in LeftOver, "conf.start.dt")
                \cup V(\A p \in Slots : \A lv \in Levels : At(At(ln.dts, p), lv) = At(ln.dt, p), "conf.level_dt")
                \cup V(\A i \in 1 .. Len(ln.u0) : ln.u0[i] = ln.carry, "val.start_from_u0")
                \cup V(\A i \in 1 .. Len(ln.aliased) : ~ ln.aliased[i], "val.u0_copied")
          /\ time' = [p \in Slots |-> At(ln.time, p)]
          /\ dt' = [p \in Slots |-> At(ln.dt, p)]
          /\ nact' = ln.nact
          /\ phase' = IF ln.nact = 0 THEN "nothing" ELSE "run"
          /\ st' = [RestartBlock(st, ln.nact) EXCEPT !.riar = [p \in Slots |-> At(ln.riar, p)]]
          /\ nblk' = 1
          /\ gram' = GramInit
          /\ last' = <<>>
    /\ l' = l + 1
    /\ UNCHANGED <<carry, acc, rej, stats, hist, consec, tid>>

\* one call of pfasst()
TraceStage ==
    /\ HasLine /\ Line.k = "st" /\ phase = "run" /\ Running(st) # {}
    /\ LET ln == Line
           sg == StageOf(st)
           usable == sg # "IT_CHECK" \/ OrcUsable(ln)
           orc == IF sg = "IT_CHECK" /\ usable THEN OrcOf(ln) ELSE NoOracle(Running(st))
           nx == IF ~ StagesEqual(st) THEN [st EXCEPT !.err = "stageerr"] ELSE DoStage(st, orc)
           merr == ModelErr(nx.err)
           cerr == ErrName(ln.err)
           g == GramRun(gram, ln.evs)
           mg == Merged(nx, ln)
       IN /\ viol' = viol
                \cup V(sg = ln.sg, "conf.stage_name")
                \cup V(usable, "conf.oracle_alignment")
                \cup V(merr = cerr, "conf.error")
                \cup (IF cerr = "none" /\ merr = "none" THEN StageDiffs(nx, ln, sg) ELSE {})
                \cup (IF cerr = "none" THEN ObsClauses(mg, ln.nact) ELSE {})
                \cup V(cerr # "none" \/ DoneStableObs(st, mg, ln.nact), "obs.done_stable")
                \cup V(cerr # "none" \/ HashStable(last, ln, ln.nact), "obs.done_data_stable")
                \cup V(~ g.bad, "obs.callback_grammar")
                \cup V(RecvOK(ln.evs), "obs.recv_tag")
                \cup V(RecvValOK(ln.evs), "val.recv_copies_uend")
                \cup V(ln.err # "CommunicationError", "obs.no_comm_error")
                \cup V(ln.err # "ControllerError", "obs.no_controller_error")
                \cup V(ln.err \in {"none", "CommunicationError", "ControllerError", "ConvergenceError"}, "obs.no_other_error")
          /\ st' = IF cerr = "none" THEN [mg EXCEPT !.uv = nx.uv, !.zv = nx.zv] ELSE [nx EXCEPT !.err = cerr]
          /\ phase' = IF cerr = "none" THEN "run" ELSE ModelErrPhase(ln.err)
          /\ stats' = IF sg = "IT_CHECK" /\ cerr = "none" THEN StatsAfterCheck(stats, st, mg) ELSE stats
          /\ gram' = g.state
          /\ last' = IF cerr = "none" THEN ln ELSE last
    /\ l' = l + 1
    /\ UNCHANGED <<nact, time, dt, carry, acc, rej, nblk, hist, consec, tid>>

\* block end: restart_block called at the end of a block
TraceBlockEnd ==
    /\ HasLine /\ Line.k = "rb" /\ phase = "run"
    /\ LET ln   == Line
           alld == \A p \in Active : st.done[p]
           ra   == FirstRestart(st)
           tm0  == IF ra < nact THEN [time EXCEPT ![0] = time[ra]]
                   ELSE [time EXCEPT ![0] = time[nact - 1] + dt[nact - 1]]
           newacc == [i \in 1 .. ra |-> AccRec(i - 1, st)]
           newrej == [i \in 1 .. (nact - ra) |-> AccRec(ra + i - 1, st)]
           ri   == PrepAllRiar(st.riar, 0, st)
           exact == PrepAllDtExact(dt, 0, tm0, st)
           d    == PrepAllDt(dt, 0, tm0, st)
           tm1  == NewTimes(tm0, d, 1)
           n    == NumActive(tm1)
           ltm  == [p \in Slots |-> At(ln.time, p)]
           ldt  == [p \in Slots |-> At(ln.dt, p)]
           \* expected identity of the value handed to the next block
           hexp == IF last = <<>> THEN 0
                   ELSE IF ra < nact THEN At(At(last.h0, ra), 0) ELSE At(At(last.he, nact - 1), 0)
       IN /\ viol' = viol
                \cup V(alld, "conf.blockend_all_done")
                \cup (IF exact
                      THEN   V(ln.nact = n, "conf.nact")
                        \cup V(\A p \in 0 .. Max2(n, nact) - 1 : ltm[p] = tm1[p], "conf.time")
                        \cup V(\A p \in Slots : ldt[p] = d[p], "conf.dt")
                      ELSE {})
                \cup V(\A p \in Slots : At(ln.riar, p) = ri[p], "conf.riar")
                \cup V(\A p \in Slots : \A lv \in Levels : At(At(ln.dts, p), lv) = ldt[p], "conf.level_dt")
                \* the value handed to the next block: after a restart the START value of the first restarted step (C09), otherwise
                \* the end value of the last step (C06)
                \cup V(ln.carry = hexp, IF ra < nact THEN "val.restart_start_value" ELSE "val.carry")
                \cup V(ra >= nact \/ ltm[0] = time[ra], "obs.restart_start_time")
                \* each accepted step started from exactly the end value of the previous accepted step
                \cup V(last = <<>> \/ \A p \in 1 .. ra - 1 : At(At(last.h0, p), 0) = At(At(last.he, p - 1), 0), "val.chain")
                \cup V(\A i \in 1 .. Len(ln.u0) : ln.u0[i] = ln.carry, "val.block_start_value")
                \cup V(\A i \in 1 .. Len(ln.aliased) : ~ ln.aliased[i], "val.u0_copied")
                \* observed tiling: the next block starts where the accepted part of this one ends
                \cup V(ltm[0] = (IF ra < nact THEN time[ra] ELSE time[nact - 1] + dt[nact - 1]), "obs.next_block_start")
                \cup V(\A p \in 1 .. ln.nact - 1 : ltm[p] = ltm[p - 1] + ldt[p - 1], "obs.contiguous")
                \cup V(\A p, q \in 0 .. ln.nact - 1 : ldt[p] = ldt[q], "obs.one_dt_per_block")
                \cup V(\A p \in 0 .. ln.nact - 1 : ltm[p] < TEND, "obs.no_start_beyond_tend")
                \cup V(ln.nact = 0 => ltm[0] >= TEND, "obs.no_early_stop")
                \cup V(\A i \in 1 .. Len(newacc) : newacc[i].chained, "ver.chain")
                \cup V(\A i \in 1 .. Len(newacc) : newacc[i].endok, "ver.endpoint")
                \cup V(\A i \in 1 .. Len(newacc) : newacc[i].niter = newacc[i].nit, "ver.niter")
          /\ consec' = IF ra = 0 THEN consec + 1 ELSE 0
          /\ carry' = IF ra < nact THEN <<"ustart", Len(acc) + ra>> ELSE <<"uend", Len(acc) + nact>>
          /\ acc' = acc \o newacc
          /\ rej' = rej \o newrej
          /\ dt' = ldt
          /\ time' = ltm
          /\ nact' = ln.nact
          /\ st' = RestartBlock([st EXCEPT !.riar = [p \in Slots |-> At(ln.riar, p)]], ln.nact)
          /\ phase' = IF ln.nact = 0 THEN "finished" ELSE "run"
          /\ nblk' = nblk + 1
          /\ gram' = gram
          /\ last' = <<>>
    /\ l' = l + 1
    /\ UNCHANGED <<stats, hist, tid>>

\* end of run(): return or exception
TraceEnd ==
    /\ HasLine /\ Line.k = "end"
    /\ LET ln == Line
           expexc == CASE phase = "finished" -> "none"
                       [] phase = "crashed" -> "ConvergenceError"
                       [] phase = "commerr" -> "CommunicationError"
                       [] phase \in {"nothing", "stageerr", "prederr", "ctrlerr"} -> "ControllerError"
                       [] phase = "init" -> IF NumActive([p \in Slots |-> T0 + p * DT0]) = 0
                                            THEN "ControllerError" ELSE "?"
                       [] OTHER -> "?"
           obsStats == {ln.stats[i] : i \in 1 .. Len(ln.stats)}
           PT == PerStepTypes
       IN /\ viol' = viol
                \cup V(ln.exc = expexc, "conf.outcome")
                \cup V(ln.u0_unchanged, "val.caller_u0_unchanged")
                \cup V(ln.exc # "none" \/ ln.ret = ln.carry, "val.return_is_last_uend")
                \cup V(ln.exc # "none" \/ ln.logged_unchanged, "val.logged_unchanged")
                \* every recorded amount of work equals the number of right-hand-side evaluations the step's problem object
                \* actually received between the step's start and end callbacks (counted independently of the work counters)
                \cup V(ln.exc # "none" \/ ~ ln.has_stats \/ ln.work_ok, "stats.work_counters")
                \* the statistics a run returned remain the record of THAT run when the controller is used again
                \cup V(ln.prev_stats_unchanged, "stats.earlier_run_unchanged")
                \cup V(ln.exc # "none" \/ ~ ln.has_stats \/ obsStats = stats, "stats.entries")
                \cup V(ln.exc # "none" \/ ~ ln.has_stats \/ \A T \in PT : OnePerAccepted(obsStats, T, acc), "stats.one_per_step")
                \cup V(ln.exc # "none" \/ ~ ln.has_stats \/ NiterRecorded(obsStats, acc), "stats.niter")
                \cup V(ln.exc # "none" \/ ~ ln.has_stats \/ IterRecordsMatch(obsStats, acc), "stats.iteration_records")
                \cup V(ln.exc # "none" \/ ~ ln.has_stats \/
                        {<<e[1], e[2], e[7]>> : e \in {x \in FilterRecomputedAll(obsStats) : x[1] \in PT}}
                            = {<<ln.filtered_all[j][1], ln.filtered_all[j][2], ln.filtered_all[j][3]>> : j \in 1 .. Len(ln.filtered_all)},
                        "stats.filter_without_type")
                \cup V(ln.exc # "none" \/ ~ ln.has_stats \/
                        \A i \in 1 .. Len(ln.filtered) :
                            {<<e[2], e[7]>> : e \in FilterRecomputed(obsStats, ln.filtered[i][1])}
                                = {<<ln.filtered[i][2][j][1], ln.filtered[i][2][j][2]>> : j \in 1 .. Len(ln.filtered[i][2])}
                            /\ Cardinality(FilterRecomputed(obsStats, ln.filtered[i][1])) = Len(ln.filtered[i][2]),
                        "stats.filter")
                \cup V(ln.exc # "none" \/ TileStart, "acc.tile_start")
                \cup V(ln.exc # "none" \/ TileContiguous, "acc.tile_contiguous")
                \cup V(ln.exc # "none" \/ NoStartBeyondTend, "acc.no_start_beyond_tend")
                \cup V(ln.exc # "none" \/ NoEarlyStop, "acc.no_early_stop")
                \cup V(ln.exc # "none" \/ ~ ln.fixed \/ Len(acc) = (TEND - T0 + DT0 - 1) \div DT0, "acc.fixed_step_count")
                \cup V(ln.exc # "ConvergenceError" \/ (CRASH /\ st.riar[0] >= MAXR), "obs.crash_only_after_budget")
                \cup V(RetryBudget, "acc.retry_budget")
          /\ phase' = "validated"
    /\ l' = l + 1
    /\ UNCHANGED <<nact, time, dt, st, carry, acc, rej, stats, nblk, hist, consec, tid, gram, last>>

\* a line that fits no action in the current phase (e.g. the run went on although the model says it is over)
TraceStray ==
    /\ HasLine
    /\ ~ (Line.k = "rb" /\ phase \in {"init", "run"})
    /\ ~ (Line.k = "st" /\ phase = "run" /\ Running(st) # {})
    /\ Line.k # "end"
    /\ viol' = viol \cup {<<l, "conf.unexpected_line">>}
    /\ l' = l + 1
    /\ UNCHANGED <<vars, tid, gram, last>>

\* all lines of the run consumed: print the verdict, go to the next run
TraceNextRun ==
    /\ tid <= NRuns /\ l > Len(Ev)
    /\ PrintT(ToJson([tid |-> Runs[tid].tid, n |-> Len(Ev), acc |-> Len(acc), rej |-> Len(rej), ph |-> phase,
                      viol |-> SetToSeq(viol)]))
    /\ tid' = tid + 1 /\ l' = 1 /\ viol' = {} /\ gram' = GramInit /\ last' = <<>>
    /\ phase' = "init" /\ nact' = 0 /\ time' = [p \in Slots |-> 0] /\ dt' = [p \in Slots |-> DT0]
    /\ st' = InitSt /\ carry' = <<"u0">> /\ acc' = <<>> /\ rej' = <<>> /\ stats' = {} /\ nblk' = 0 /\ hist' = <<>>
    /\ consec' = 0

TraceNext == TraceRunStart \/ TraceStage \/ TraceBlockEnd \/ TraceEnd \/ TraceStray \/ TraceNextRun

TraceSpec == TraceInit /\ [][TraceNext]_tvars

AllConsumed == tid = NRuns + 1
=============================================================================
