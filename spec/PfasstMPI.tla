------------------------------- MODULE PfasstMPI -------------------------------
(***************************************************************************)
(* One block of the MPI time-parallel controller (controller_MPI, single   *)
(* level, Jacobi multi-step SDC) as N rank processes over the message      *)
(* layer SimMPI.  One action per COMMUNICATION CALL of a rank; matching /  *)
(* completion of posted operations is a separate environment action, so    *)
(* TLC explores every interleaving of ranks and every completion timing.   *)
(*                                                                         *)
(* Program of a rank in iteration k (pySDC names in brackets):             *)
(*   CW   wait for my previous data send              [send_full]          *)
(*   CS   Issend uend, tag k, to next (not last)      [send_full]          *)
(*   CR   Irecv u0, tag k, from prev + Wait           [recv_full]          *)
(*        (not first, prev not done)                                       *)
(*   RR   Recv restart info, tag 95, from prev        [BasicRestartingMPI] *)
(*   RS   Isend restart info to next                                       *)
(*   SR   Recv done status, tag 200, from prev        [CheckConvergence.   *)
(*   SS   Isend done status to next                    communicate_conv.]  *)
(*   then either iter+1 and the same data exchange once more in IT_FINE    *)
(*   (FW FS FR), or wait for all my sends and finish  [it_check, done]     *)
(*   Gauss-Seidel flavour (JAC = FALSE) instead of FW FS FR:  [it_coarse]  *)
(*   GR   Irecv u0, tag k+1, from prev + Wait (not first, prev not done)   *)
(*   GS   Issend uend, tag k+1, to next WITHOUT waiting for the send of    *)
(*        IT_CHECK (the handle of that request is overwritten), then Wait  *)
(* The numerics are an oracle conv[p][k].                                  *)
(***************************************************************************)
EXTENDS SimMPI, TLC

CONSTANTS N, MAXITER,
          JAC      \* TRUE: Jacobi-like multi-step SDC (IT_FINE after the check); FALSE: Gauss-Seidel-like (IT_COARSE: blocking
                   \* receive of the predecessor's new end value, sweep, synchronous send of the own one)

Ranks == 0 .. N - 1

VARIABLES pc, iter, pdone, done, myconv, rsflag,   \* per rank
          sends, recvs, completed, nord, nid,         \* message layer
          datareq, waitreq,                           \* request ids a rank holds
          conv,                                       \* oracle
          got                                         \* payload received last (per rank)

vars == <<pc, iter, pdone, done, myconv, rsflag, sends, recvs, completed, nord, nid, datareq, waitreq, conv, got>>

First(p) == p = 0
Last(p) == p = N - 1

Init ==
    /\ conv \in [Ranks -> [0 .. MAXITER -> BOOLEAN]]
    /\ pc = [p \in Ranks |-> "CW"]
    /\ iter = [p \in Ranks |-> 0]
    /\ pdone = [p \in Ranks |-> FALSE]
    /\ done = [p \in Ranks |-> FALSE]
    /\ myconv = [p \in Ranks |-> FALSE]
    /\ rsflag = [p \in Ranks |-> FALSE]
    /\ sends = {} /\ recvs = {} /\ completed = {} /\ nord = 0 /\ nid = [p \in Ranks |-> 0]
    /\ datareq = [p \in Ranks |-> <<>>]
    /\ waitreq = [p \in Ranks |-> <<>>]
    /\ got = [p \in Ranks |-> <<>>]

Converged(p) == conv[p][iter[p]] \/ iter[p] >= MAXITER

\* request ids and posting order are per rank (<<rank, local counter>>): an envelope's sends all come from one rank and
\* its receives from one rank, so the local order is what non-overtaking needs -- and interleavings do not inflate ids
NewId(p) == <<p, nid[p] + 1>>
PostSend(p, dst, tag, payload) ==
    /\ sends' = sends \cup {[id |-> NewId(p), comm |-> 1, src |-> p, dst |-> dst, tag |-> tag, ord |-> nid[p], pay |-> payload]}
    /\ nid' = [nid EXCEPT ![p] = @ + 1] /\ nord' = nord
PostRecv(p, src, tag) ==
    /\ recvs' = recvs \cup {[id |-> NewId(p), comm |-> 1, src |-> src, dst |-> p, tag |-> tag, ord |-> nid[p], pay |-> <<>>]}
    /\ nid' = [nid EXCEPT ![p] = @ + 1] /\ nord' = nord

\* environment: complete a matching pair (oldest send of the envelope)
Match ==
    \E r \in recvs : \E s \in OldestMatching(sends, r) :
        /\ \A q \in recvs : SameEnvelope(s, q) => r.ord <= q.ord
        /\ sends' = sends \ {s} /\ recvs' = recvs \ {r}
        /\ completed' = {x \in completed \cup {s.id, r.id} : \E q \in Ranks : datareq[q] = x \/ waitreq[q] = x}
        /\ got' = [got EXCEPT ![r.dst] = s.pay]
        /\ UNCHANGED <<pc, iter, pdone, done, myconv, rsflag, nord, nid, datareq, waitreq, conv>>

Goto(p, l) == pc' = [pc EXCEPT ![p] = l]
Unch(S) == UNCHANGED S

\* ---- data exchange (used in IT_CHECK as C* and in IT_FINE as F*) -----------------------------------
WaitSend(p, from, to) ==
    /\ pc[p] = from
    /\ datareq[p] = <<>> \/ datareq[p] \in completed
    /\ Goto(p, to)
    /\ UNCHANGED <<iter, pdone, done, myconv, rsflag, sends, recvs, completed, nord, nid, datareq, waitreq, conv, got>>

SendData(p, from, to) ==
    /\ pc[p] = from
    /\ IF Last(p) THEN UNCHANGED <<sends, nid, nord, datareq>>
       ELSE PostSend(p, p + 1, iter[p], <<"u", p, iter[p]>>) /\ datareq' = [datareq EXCEPT ![p] = NewId(p)]
    /\ Goto(p, to)
    /\ UNCHANGED <<iter, pdone, done, myconv, rsflag, recvs, completed, waitreq, conv, got>>

PostRecvData(p, from, to, skipto) ==
    /\ pc[p] = from
    /\ IF First(p) \/ pdone[p]
       THEN Goto(p, skipto) /\ UNCHANGED <<recvs, nid, nord, waitreq>>
       ELSE PostRecv(p, p - 1, iter[p]) /\ waitreq' = [waitreq EXCEPT ![p] = NewId(p)] /\ Goto(p, to)
    /\ UNCHANGED <<iter, pdone, done, myconv, rsflag, sends, completed, datareq, conv, got>>

WaitRecv(p, from, to) ==
    /\ pc[p] = from
    /\ waitreq[p] \in completed
    /\ Goto(p, to)
    /\ UNCHANGED <<iter, pdone, done, myconv, rsflag, sends, recvs, completed, nord, nid, datareq, waitreq, conv, got>>

\* ---- IT_CHECK: residual (oracle), restart info, convergence status ---------------------------------
Residual(p) ==
    /\ pc[p] = "RES"
    /\ myconv' = [myconv EXCEPT ![p] = Converged(p)]
    /\ Goto(p, "RR")
    /\ UNCHANGED <<iter, pdone, done, rsflag, sends, recvs, completed, nord, nid, datareq, waitreq, conv, got>>

\* blocking Recv = post + wait
BlockingRecvPost(p, from, to, skipto, tag) ==
    /\ pc[p] = from
    /\ IF First(p) \/ pdone[p]
       THEN Goto(p, skipto) /\ UNCHANGED <<recvs, nid, nord, waitreq>>
       ELSE PostRecv(p, p - 1, tag) /\ waitreq' = [waitreq EXCEPT ![p] = NewId(p)] /\ Goto(p, to)
    /\ UNCHANGED <<iter, pdone, done, myconv, rsflag, sends, completed, datareq, conv, got>>

RestartRecvDone(p) ==
    /\ pc[p] = "RRW" /\ waitreq[p] \in completed
    /\ rsflag' = [rsflag EXCEPT ![p] = got[p][2]]
    /\ Goto(p, "RS")
    /\ UNCHANGED <<iter, pdone, done, myconv, sends, recvs, completed, nord, nid, datareq, waitreq, conv, got>>

RestartSend(p) ==
    /\ pc[p] = "RS"
    /\ IF Last(p) THEN UNCHANGED <<sends, nid, nord>> ELSE PostSend(p, p + 1, 95, <<"rs", rsflag[p]>>)
    /\ Goto(p, "SR")
    /\ UNCHANGED <<iter, pdone, done, myconv, rsflag, recvs, completed, datareq, waitreq, conv, got>>

StatusRecvDone(p) ==
    /\ pc[p] = "SRW" /\ waitreq[p] \in completed
    /\ pdone' = [pdone EXCEPT ![p] = got[p][2]]
    /\ done' = [done EXCEPT ![p] = myconv[p] /\ got[p][2]]
    /\ Goto(p, "SS")
    /\ UNCHANGED <<iter, myconv, rsflag, sends, recvs, completed, nord, nid, datareq, waitreq, conv, got>>

StatusSkip(p) ==   \* first rank or predecessor already done: my own verdict counts
    /\ pc[p] = "SK"
    /\ done' = [done EXCEPT ![p] = myconv[p]]
    /\ Goto(p, "SS")
    /\ UNCHANGED <<iter, pdone, myconv, rsflag, sends, recvs, completed, nord, nid, datareq, waitreq, conv, got>>

StatusSend(p) ==
    /\ pc[p] = "SS"
    /\ IF Last(p) THEN UNCHANGED <<sends, nid, nord>> ELSE PostSend(p, p + 1, 200, <<"done", done[p]>>)
    /\ Goto(p, "DEC")
    /\ UNCHANGED <<iter, pdone, done, myconv, rsflag, recvs, completed, datareq, waitreq, conv, got>>

Decide(p) ==
    /\ pc[p] = "DEC"
    /\ IF done[p] THEN Goto(p, "FIN") /\ UNCHANGED iter
       ELSE Goto(p, IF JAC THEN "FW" ELSE "GR") /\ iter' = [iter EXCEPT ![p] = @ + 1]
    /\ UNCHANGED <<pdone, done, myconv, rsflag, sends, recvs, completed, nord, nid, datareq, waitreq, conv, got>>

\* finished: wait for my pending data send, then stop
Finish(p) ==
    /\ pc[p] = "FIN"
    /\ datareq[p] = <<>> \/ datareq[p] \in completed
    /\ Goto(p, "DONE")
    /\ UNCHANGED <<iter, pdone, done, myconv, rsflag, sends, recvs, completed, nord, nid, datareq, waitreq, conv, got>>

RankStep(p) ==
    \/ WaitSend(p, "CW", "CS") \/ SendData(p, "CS", "CR") \/ PostRecvData(p, "CR", "CRW", "RES") \/ WaitRecv(p, "CRW", "RES")
    \/ Residual(p)
    \/ BlockingRecvPost(p, "RR", "RRW", "RS", 95) \/ RestartRecvDone(p) \/ RestartSend(p)
    \/ BlockingRecvPost(p, "SR", "SRW", "SK", 200) \/ StatusRecvDone(p) \/ StatusSkip(p) \/ StatusSend(p)
    \/ Decide(p)
    \/ WaitSend(p, "FW", "FS") \/ SendData(p, "FS", "FR") \/ PostRecvData(p, "FR", "FRW", "CW") \/ WaitRecv(p, "FRW", "CW")
    \/ PostRecvData(p, "GR", "GRW", "GS") \/ WaitRecv(p, "GRW", "GS") \/ SendData(p, "GS", "GSW") \/ WaitSend(p, "GSW", "CW")
    \/ Finish(p)

AllDone == \A p \in Ranks : pc[p] = "DONE"
\* after all ranks are done the environment may still complete status messages nobody waits for
Next == (\E p \in Ranks : RankStep(p)) \/ Match \/ (AllDone /\ ~ CanMatch(sends, recvs) /\ UNCHANGED vars)

Spec == Init /\ [][Next]_vars
FairSpec == Spec /\ WF_vars((\E p \in Ranks : RankStep(p)) \/ Match)

\* ---- properties -------------------------------------------------------------------------------------
\* serial reference: rank p finishes at the first pass k at which it is converged and its predecessor has finished by k
RECURSIVE SerialNiter(_)
SerialNiter(p) ==
    LET prev == IF p = 0 THEN 0 ELSE SerialNiter(p - 1)
    IN CHOOSE k \in 0 .. MAXITER : /\ k >= prev /\ (conv[p][k] \/ k = MAXITER)
                                    /\ \A j \in prev .. k - 1 : ~ (conv[p][j] \/ j = MAXITER)

\* every schedule ends with the iteration counts of the serial controller
ScheduleIndependence == AllDone => \A p \in Ranks : iter[p] = SerialNiter(p)
\* finishing in time order
FinishInOrder == \A p \in Ranks : (p > 0 /\ pc[p] = "DONE") => done[p - 1]
\* no message is left over when everybody is done and the environment is quiescent
NoOrphan == (AllDone /\ ~ CanMatch(sends, recvs)) => (sends = {} /\ recvs = {})
\* a receive is only ever posted for a message that is or will be sent: no rank waits forever
Terminates == <>AllDone
TypeOK == \A p \in Ranks : iter[p] \in 0 .. MAXITER
=============================================================================
