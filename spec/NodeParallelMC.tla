---------------------------- MODULE NodeParallelMC ----------------------------
EXTENDS NodeParallel
SdcProg == <<"predict", "res_full", "update", "res_full", "update", "res_last", "end_copy">>
CollProg == <<"update", "res_full", "update", "end_coll_tau">>
MlsdcProg == <<"update", "res_full", "restrict", "res_full", "update", "prolong", "update", "res_full", "restrict_tau", "update", "prolong_f", "end_copy">>
CollProg2 == <<"update", "end_coll_tau", "update">>
None == {}
OnlyZero == {0}
=============================================================================
