------------------------------ MODULE Reentrancy ------------------------------
(***************************************************************************)
(* Histories of controller creation and runs inside ONE process, against a *)
(* MEMORYLESS reference semantics (C19):                                   *)
(*   the result of Run(c, a, b, u) depends only on the kind of controller  *)
(*   c, the segment [a,b] and the input value u -- not on what was created *)
(*   or run before, on this or on any other controller -- and a run over   *)
(*   [a,c] equals the run over [b,c] started from the result of [a,b]      *)
(*   for every block boundary b.                                           *)
(* Values are symbolic terms: <<"init", family>> or                        *)
(*   <<"seg", kind, from, to, input term>> in NORMAL FORM (one term per    *)
(*   elementary segment), so equal terms <=> equal expected bits.          *)
(* TLC enumerates the histories; the harness executes each in a fresh      *)
(* interpreter and requires: equal terms => bit-identical solutions (and   *)
(* statistics, timings aside), within a history and across histories.      *)
(***************************************************************************)
EXTENDS Integers, Sequences, FiniteSets, TLC, Json

CONSTANTS KINDS,      \* set of kind names
          FAMILY,     \* function kind -> problem family (values of different families cannot be mixed)
          POINTS,     \* block-aligned time points common to all kinds, e.g. {0, 6, 12}
          NCTRL, MAXOPS,
          ONESHOT     \* kinds with step-size control: the property promises reproducibility on a FRESH controller only, so such a
                      \* controller is run at most once, from the initial value, over the whole interval

Ctrl == 1 .. NCTRL

VARIABLES used,    \* controllers that have run since they were created
          ctrl,    \* controller -> kind or "none"
          vals,    \* sequence of [t, fam, term] : values available as inputs (results of earlier runs)
          hist     \* operations with their expected result terms

vars == <<ctrl, vals, hist, used>>

Elem(a, b) == \* elementary segments between consecutive points of POINTS inside [a, b]
    {<<p, q>> \in POINTS \X POINTS : a <= p /\ p < q /\ q <= b /\ ~ \E r \in POINTS : p < r /\ r < q}

RECURSIVE Apply(_, _, _, _)
\* normal form of running `kind` over [a, b] from the term u
Apply(kind, a, b, u) ==
    IF kind \in ONESHOT THEN <<"seg", kind, a, b, u>>
    ELSE IF a = b THEN u
    ELSE LET q == CHOOSE x \in POINTS : x > a /\ \A y \in POINTS : y > a => x <= y
         IN Apply(kind, q, b, <<"seg", kind, a, q, u>>)

Init == /\ ctrl = [c \in Ctrl |-> "none"]
        /\ vals = <<>>
        /\ hist = <<>>
        /\ used = {}

New(c, k) == /\ Len(hist) < MAXOPS
             /\ ctrl' = [ctrl EXCEPT ![c] = k]
             /\ hist' = Append(hist, [op |-> "new", c |-> c, kind |-> k])
             /\ used' = used \ {c}
             /\ UNCHANGED vals

Run(c, a, b, src) ==
    /\ Len(hist) < MAXOPS /\ ctrl[c] # "none" /\ a < b
    /\ LET k == ctrl[c]
           u == IF src = 0 THEN <<"init", FAMILY[k]>> ELSE vals[src].term
           ok == IF src = 0 THEN a = CHOOSE m \in POINTS : \A y \in POINTS : m <= y
                 ELSE vals[src].t = a /\ vals[src].fam = FAMILY[k]
           r == Apply(k, a, b, u)
           first == CHOOSE m \in POINTS : \A y \in POINTS : m <= y
           last  == CHOOSE m \in POINTS : \A y \in POINTS : m >= y
       IN /\ ok
          /\ (k \in ONESHOT => (c \notin used /\ src = 0 /\ a = first /\ b = last))
          /\ used' = used \cup {c}
          /\ vals' = Append(vals, [t |-> b, fam |-> FAMILY[k], term |-> r])
          /\ hist' = Append(hist, [op |-> "run", c |-> c, kind |-> k, a |-> a, b |-> b, src |-> src, inp |-> u, term |-> r,
                                    \* statistics are comparable only for the identical call (same segmentation)
                                    statsterm |-> <<"stats", k, a, b, u>>])
          /\ UNCHANGED ctrl

Next == \/ \E c \in Ctrl, k \in KINDS : New(c, k)
        \/ \E c \in Ctrl, a, b \in POINTS, src \in 0 .. Len(vals) : Run(c, a, b, src)

Spec == Init /\ [][Next]_vars

\* the reference semantics is composable by construction; stated as a property of Apply
Composable == \A k \in KINDS \ ONESHOT : \A a, b, c \in POINTS : (a < b /\ b < c) =>
                  Apply(k, a, c, <<"init", FAMILY[k]>>) = Apply(k, b, c, Apply(k, a, b, <<"init", FAMILY[k]>>))
NRuns == Cardinality({i \in 1 .. Len(hist) : hist[i].op = "run"})
Export == (Len(hist) = MAXOPS /\ NRuns >= 2) => PrintT(ToJson([re |-> TRUE, hist |-> hist]))
=============================================================================
