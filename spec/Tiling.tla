-------------------------------- MODULE Tiling --------------------------------
(***************************************************************************)
(* C06 for arbitrary floating-point inputs (t0, dt, Tend not on a dyadic   *)
(* lattice).  The run loop of the controllers, reduced to its time         *)
(* bookkeeping:                                                            *)
(*   a block of n steps starts at s; step p starts at s + p*dt; a step is  *)
(*   active iff its start is before Tend; the next block starts at the end *)
(*   of the last active step.                                              *)
(* Times are RANKS of the distinct floating-point numbers that occur in a  *)
(* recorded run (rank order = numerical order, equal ranks = bit-identical *)
(* floats), so the specification speaks about exactly the comparisons the  *)
(* property makes -- no arithmetic on rounded values.  TraceTiling below   *)
(* validates recorded runs; the model itself is checked for the lattice    *)
(* case (integer ticks).                                                   *)
(***************************************************************************)
EXTENDS Integers, Sequences, FiniteSets, TLC

CONSTANTS T0, TEND, DT, NP      \* lattice instance for model checking

VARIABLES start, acc, fin

vars == <<start, acc, fin>>

Init == start = T0 /\ acc = <<>> /\ fin = FALSE

Block ==
    /\ ~ fin
    /\ LET n == Cardinality({p \in 0 .. NP - 1 : start + p * DT < TEND})
       IN IF n = 0 THEN fin' = TRUE /\ UNCHANGED <<start, acc>>
          ELSE /\ acc' = acc \o [i \in 1 .. n |-> [s |-> start + (i - 1) * DT, e |-> start + i * DT]]
               /\ start' = start + n * DT
               /\ fin' = FALSE
Next == Block \/ (fin /\ UNCHANGED vars)
Spec == Init /\ [][Next]_vars

\* the clauses of C06 on a sequence of accepted steps [s, e] with first start t0 and final time tend
TilesFrom(a, t0) == Len(a) > 0 => a[1].s = t0
Contiguous(a) == \A i \in 1 .. Len(a) - 1 : a[i + 1].s = a[i].e
NoStartAtOrBeyond(a, tend) == \A i \in 1 .. Len(a) : a[i].s < tend
ReachesEnd(a, tend) == Len(a) > 0 /\ a[Len(a)].e >= tend

TileOK == fin => (TilesFrom(acc, T0) /\ Contiguous(acc) /\ NoStartAtOrBeyond(acc, TEND) /\ ReachesEnd(acc, TEND)
                   /\ Len(acc) = (TEND - T0 + DT - 1) \div DT)
=============================================================================
