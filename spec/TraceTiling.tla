------------------------------ MODULE TraceTiling ------------------------------
(***************************************************************************)
(* Validation of recorded fixed-step runs with arbitrary float inputs      *)
(* against the clauses of Tiling.  A run is                                *)
(*   [tid, t0, tend (ranks), n_expected, near (rank window of "Tend up to  *)
(*    rounding"), steps : <<[s, e, u0, ue]>> (ranks and content ids),      *)
(*    ret, init]                                                           *)
(* n_expected = the smallest N with t0 + N*dt >= Tend computed in exact    *)
(* rational arithmetic from the float inputs (rounded when (Tend-t0)/dt is *)
(* an integer up to 1e-9).                                                 *)
(***************************************************************************)
EXTENDS Integers, Sequences, FiniteSets, TLC, Json, IOUtils, TLCExt, SequencesExt

Batch == JsonDeserialize(IOEnv.TRACE_FILE)
Runs == Batch.runs

VARIABLE i

V(c, name) == IF c THEN {} ELSE {name}

Verdict(r) ==
    LET a == r.steps
        N == Len(a)
    IN  V(N > 0 /\ (a[1].s = r.t0 \/ a[1].first_ok), "tile.starts_at_t0")
   \cup V(N > 0 => a[1].u0 = r.init, "tile.first_value_is_initial_value")
   \* no gap, no overlap: the next start is the previous end (bit-identical, or equal up to 4 ulp where the code computes the
   \* two by different but equivalent expressions)
   \cup V(\A k \in 1 .. N - 1 : a[k + 1].s = a[k].e \/ a[k + 1].contig, "tile.contiguous")
   \* (chain_ok: inside a block of the all-at-once ParaDiag controller the values agree up to its solver tolerance only)
   \cup V(\A k \in 1 .. N - 1 : a[k + 1].u0 = a[k].ue \/ a[k + 1].chain_ok, "tile.chain_values")
   \* no step starts at or beyond Tend -- "up to rounding": a start inside the rounding window of Tend counts as "at Tend"
   \cup V(\A k \in 1 .. N : a[k].s < r.tend /\ ~ a[k].near_tend, "tile.no_start_at_or_beyond_tend")
   \cup V(N > 0 /\ (a[N].e >= r.tend \/ a[N].end_near_tend), "tile.reaches_tend")
   \cup V(N = r.n_expected, "tile.step_count")
   \cup V(N > 0 => r.ret = a[N].ue, "tile.returns_last_end_value")

Init == i = 1
Next == /\ i <= Len(Runs)
        /\ PrintT(ToJson([tid |-> Runs[i].tid, viol |-> SetToSeq(Verdict(Runs[i]))]))
        /\ i' = i + 1
Spec == Init /\ [][Next]_i
=============================================================================
