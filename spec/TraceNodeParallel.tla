--------------------------- MODULE TraceNodeParallel ---------------------------
(***************************************************************************)
(* Validation of the collective-communication event logs of the simulated  *)
(* MPI recorded while the REAL node-parallel sweepers / base_transfer_MPI  *)
(* ran one rank per collocation node under some schedule.                  *)
(* Events (one per line, in global order):                                 *)
(*   op        rank announces the sweeper operation it starts (harness)    *)
(*   coll      rank enters collective #idx of communicator comm            *)
(*   coll_done rank leaves it                                              *)
(*   coll_mismatch / deadlock   raised by the simulated MPI                *)
(* Total verdict per run (set of <<line, clause>>):                        *)
(*   np.collective_match  ranks meeting in one slot issue the same call    *)
(*   np.leave_rule        a rank leaves only when NodeParCalls!MayLeave    *)
(*                        allows (binds the simulated MPI to the model)    *)
(*   np.program           the calls of an announced operation are those    *)
(*                        NodeParCalls!CallsOf prescribes (informational:  *)
(*                        the property does not fix the pattern)           *)
(*   np.unfinished        at the end a slot was entered by some ranks only *)
(*                        or a rank is still inside a collective           *)
(*   mpi.collective_mismatch, mpi.deadlock                                 *)
(***************************************************************************)
EXTENDS NodeParCalls, Json, IOUtils, TLCExt, TLC, SequencesExt, FiniteSets

Batch == JsonDeserialize(IOEnv.TRACE_FILE)
Runs == Batch.runs

VARIABLES tid, l, slots, inside, expect, viol, nops

vars == <<tid, l, slots, inside, expect, viol, nops>>

Ev == Runs[tid].ev
MM == Runs[tid].M
HasLine == tid <= Len(Runs) /\ l <= Len(Ev)
E == Ev[l]
V(c, name) == IF c THEN {} ELSE {<<l, name>>}
Key(e) == <<e.comm, e.idx>>
NoSlot == [sig |-> <<"-", -2>>, arrived |-> {}, size |-> 0]
SlotOf(e) == IF Key(e) \in DOMAIN slots THEN slots[Key(e)] ELSE NoSlot
Upd(f, k, v) == [x \in DOMAIN f \cup {k} |-> IF x = k THEN v ELSE f[x]]

Init == tid = 1 /\ l = 1 /\ slots = <<>> /\ inside = {} /\ expect = <<>> /\ viol = {} /\ nops = 0

OpEvent ==
    /\ HasLine /\ E.k = "op"
    /\ expect' = Upd(expect, E.cr, (IF E.cr \in DOMAIN expect THEN expect[E.cr] ELSE <<>>) \o CallsOf(E.name, E.cr, MM, Runs[tid].hastau))
    /\ nops' = nops + 1
    /\ l' = l + 1 /\ UNCHANGED <<tid, slots, inside, viol>>

Enter ==
    /\ HasLine /\ E.k = "coll"
    /\ LET s == SlotOf(E) sig == <<E.op, E.root>>
           q == IF E.cr \in DOMAIN expect THEN expect[E.cr] ELSE <<>> IN
       /\ viol' = viol \cup V(s.arrived = {} \/ s.sig = sig, "np.collective_match")
                       \cup V(E.cr \notin s.arrived, "np.entered_twice")
                       \cup V(~ Runs[tid].program \/ (q # <<>> /\ Head(q) = sig), "np.program")
       /\ slots' = Upd(slots, Key(E), [sig |-> IF s.arrived = {} THEN sig ELSE s.sig, arrived |-> s.arrived \cup {E.cr}, size |-> E.size])
       /\ expect' = IF q # <<>> THEN Upd(expect, E.cr, Tail(q)) ELSE expect
    /\ inside' = inside \cup {<<E.comm, E.cr>>}
    /\ l' = l + 1 /\ UNCHANGED <<tid, nops>>

Leave ==
    /\ HasLine /\ E.k = "coll_done"
    /\ LET s == SlotOf(E) IN
       viol' = viol \cup V(<<E.comm, E.cr>> \in inside /\ E.cr \in s.arrived, "np.leave_without_enter")
                    \cup V(MayLeave(E.op, E.root, E.cr, s.arrived, E.size), "np.leave_rule")
    /\ inside' = inside \ {<<E.comm, E.cr>>}
    /\ l' = l + 1 /\ UNCHANGED <<tid, slots, expect, nops>>

Other ==
    /\ HasLine /\ E.k \notin {"op", "coll", "coll_done"}
    /\ viol' = viol \cup V(E.k # "deadlock", "mpi.deadlock") \cup V(E.k # "coll_mismatch", "mpi.collective_mismatch")
    /\ l' = l + 1 /\ UNCHANGED <<tid, slots, inside, expect, nops>>

Partial == {k \in DOMAIN slots : slots[k].arrived # 0 .. slots[k].size - 1}
Leftover == {r \in DOMAIN expect : expect[r] # <<>>}

NextRun ==
    /\ tid <= Len(Runs) /\ l > Len(Ev)
    /\ PrintT(ToJson([tid |-> Runs[tid].tid, n |-> Len(Ev), ops |-> nops, colls |-> Cardinality(DOMAIN slots),
                      viol |-> SetToSeq(viol \cup (IF Partial = {} /\ inside = {} THEN {} ELSE {<<l, "np.unfinished">>})
                                             \cup (IF ~ Runs[tid].program \/ Leftover = {} THEN {} ELSE {<<l, "np.program">>}))]))
    /\ tid' = tid + 1 /\ l' = 1 /\ slots' = <<>> /\ inside' = {} /\ expect' = <<>> /\ viol' = {} /\ nops' = 0

Next == OpEvent \/ Enter \/ Leave \/ Other \/ NextRun
Spec == Init /\ [][Next]_vars
=============================================================================
