----------------------------- MODULE Multistep -----------------------------
(* Linear multistep "sweeper" of pySDC (sweeper_classes/Multistep.py, class MultiStep and its cache) for the scalar
   linear problem u' = A*u over the field Z_P, with VARIABLE step sizes.

   State = the cache of the last N accepted points (time, u, f), oldest first.  One action per call of
   MultiStep.update_nodes with a full cache:

     widths   dts[i] = t[i+1] - t[i]  (i < N),   dts[N] = tnew - t[N]          -- the widths of the CACHED steps
     rhs      = - SUM alpha[i]*u[i]  +  SUM dts[i]*beta[i]*f[i]
     (1 - dt*beta[N+1]*A) * unew = rhs              (dt = current step size; singular => no step, ProblemError)
     fnew     = A*unew ;  cache' = Tail(cache) \o <<(tnew, unew, fnew)>>

   Times are integers in units of 1/4 (QUARTER = image of 1/4 in Z_P), so that every float product formed by the code is
   exact and has the image used here.

   Two uses:
     * MC  (Cases = <<>>): TLC enumerates every cache / step-size sequence within the bounds and checks the design
       properties (TimesIncreasing, ConstantPreserved, ShiftOnly).
     * TV  (Cases = recorded runs of the real sweeper classes, JsonDeserialize(IOEnv.MS_TRACE)): every recorded update must be
       the one this specification computes (Conforms). *)
EXTENDS Integers, Sequences, TLC, Json, IOUtils

CONSTANTS P,        \* odd prime
          MODE,     \* "MC" | "TV"
          MAXSTEPS, \* MC: number of updates explored
          DTQS      \* MC: admissible step sizes in quarter units

Cases == IF MODE = "TV" THEN JsonDeserialize(IOEnv.MS_TRACE) ELSE <<>>

VARIABLES c,      \* TV: index of the case; MC: 0
          k,      \* number of updates performed
          co,     \* coefficients [a |-> A, alpha |-> Seq, beta |-> Seq]   (constant during a behaviour)
          cache,  \* Seq of [t |-> Int (quarters), u |-> 0..P-1, f |-> 0..P-1]
          dtq,    \* step size used by the last update (quarters); 0 initially
          sing    \* last update was singular (no change)
vars == <<c, k, co, cache, dtq, sing>>

Mod(x) == x % P
Inv(x) == CHOOSE y \in 1..(P - 1) : Mod(x * y) = 1
QUARTER == Inv(4)
Img(q) == Mod(q * QUARTER)      \* image of the time / width q/4

RECURSIVE SumF(_, _)
SumF(f, n) == IF n = 0 THEN 0 ELSE f[n] + SumF(f, n - 1)

N == Len(co.alpha)

Width(ch, i, tnew) == IF i < N THEN ch[i + 1].t - ch[i].t ELSE tnew - ch[N].t

Rhs(ch, tnew) ==
  LET termU == [i \in 1..N |-> (P - 1) * co.alpha[i] * ch[i].u]
      termF == [i \in 1..N |-> Img(Width(ch, i, tnew)) * co.beta[i] * ch[i].f]
  IN Mod(SumF(termU, N) + SumF(termF, N))

Denom(d) == Mod(1 + (P - 1) * Mod(Img(d) * Mod(co.beta[N + 1] * co.a)))

Update(d) ==
  LET tnew == cache[N].t + d
      den == Denom(d)
  IN /\ dtq' = d
     /\ IF den = 0
          THEN sing' = TRUE /\ UNCHANGED cache
          ELSE LET un == Mod(Rhs(cache, tnew) * Inv(den))
               IN /\ sing' = FALSE
                  /\ cache' = Tail(cache) \o <<[t |-> tnew, u |-> un, f |-> Mod(co.a * un)]>>

----------------------------------------------------------------------------
(* model checking *)
Zp == 0..(P - 1)
CoeffSets == {[a |-> a, alpha |-> al, beta |-> be] : a \in Zp, al \in UNION {[1..n -> Zp] : n \in 1..2}, be \in UNION {[1..n -> Zp] : n \in 2..3}}
MCInit == /\ c = 0 /\ k = 0 /\ dtq = 0 /\ sing = FALSE
          /\ co \in {x \in CoeffSets : Len(x.beta) = Len(x.alpha) + 1}
          /\ \E gaps \in [1..(Len(co.alpha) - 1) -> DTQS], us \in [1..Len(co.alpha) -> Zp] :
               cache = [i \in 1..Len(co.alpha) |->
                          [t |-> SumF([j \in 1..(Len(co.alpha) - 1) |-> IF j < i THEN gaps[j] ELSE 0], Len(co.alpha) - 1), u |-> us[i], f |-> Mod(co.a * us[i])]]
MCNext == /\ k < MAXSTEPS /\ ~sing
          /\ \E d \in DTQS : Update(d)
          /\ k' = k + 1 /\ UNCHANGED <<c, co>>

TimesIncreasing == \A i \in 1..(Len(cache) - 1) : cache[i].t < cache[i + 1].t
CacheShape == Len(cache) = N /\ \A i \in 1..N : cache[i].f = Mod(co.a * cache[i].u)
\* consistency of order 0: SUM alpha = -1 and f == 0 (A = 0) and a constant history give the same constant
ConstantPreserved ==
  [][(co.a = 0 /\ Mod(SumF(co.alpha, N) + 1) = 0 /\ (\A i \in 1..N : cache[i].u = cache[1].u) /\ ~sing')
        => cache'[N].u = cache[1].u]_vars
ShiftOnly == [][~sing' => \A i \in 1..(N - 1) : cache'[i] = cache[i + 1]]_vars
\* the widths that weight the cached right-hand sides are those of the cached steps, not the current one:
\* for an explicit one-step-history-free check take N = 2, beta = <<b, 0, 0>>, alpha = <<0, -1>>: unew = u2 + (t2 - t1)*b*f1
WidthsOfCachedSteps ==
  [][(N = 2 /\ co.beta[2] = 0 /\ co.beta[3] = 0 /\ co.alpha[1] = 0 /\ co.alpha[2] = P - 1 /\ ~sing')
        => cache'[2].u = Mod(cache[2].u + Img(cache[2].t - cache[1].t) * co.beta[1] * cache[1].f)]_vars

----------------------------------------------------------------------------
(* trace validation: the model computes, the record must agree *)
TVInit == /\ c \in 1..Len(Cases) /\ k = 0 /\ dtq = 0 /\ sing = FALSE
          /\ co = [a |-> Cases[c].a, alpha |-> Cases[c].alpha, beta |-> Cases[c].beta]
          /\ cache = Cases[c].cache
TVNext == /\ k < Len(Cases[c].steps) /\ ~sing
          /\ Update(Cases[c].steps[k + 1].dtq)
          /\ k' = k + 1 /\ UNCHANGED <<c, co>>

Conforms ==
  k > 0 =>
    LET r == Cases[c].steps[k]
    IN IF sing THEN r.singular
       ELSE /\ ~r.singular
            /\ r.u = cache[N].u /\ r.f = cache[N].f /\ r.uend = cache[N].u
            /\ r.cache_t = [i \in 1..N |-> cache[i].t]
            /\ r.cache_u = [i \in 1..N |-> cache[i].u]

Init == IF MODE = "TV" THEN TVInit ELSE MCInit
Next == IF MODE = "TV" THEN TVNext ELSE MCNext
Spec == Init /\ [][Next]_vars
Done == IF MODE = "TV" THEN k = Len(Cases[c].steps) ELSE k = MAXSTEPS
=============================================================================
