----------------------------- MODULE PfasstSerial -----------------------------
(***************************************************************************)
(* Specification of pySDC's serial block controller                        *)
(*   pySDC/implementations/controller_classes/controller_nonMPI.py         *)
(* together with the default convergence-controller pipeline               *)
(*   BasicRestartingNonMPI (95), SpreadStepSizesBlockwiseNonMPI (100),     *)
(*   CheckConvergence (200)                                                *)
(* and the statistics written by the default hooks.                        *)
(*                                                                         *)
(* It is written to be bound to the code: one action per call of           *)
(* controller.pfasst() (i.e. per stage of the block), one for the block    *)
(* end of controller.run(), one for the start and one for the end of run().*)
(* Everything numerical is abstracted into an ORACLE that is consulted once*)
(* per running step in every IT_CHECK stage (the position at which a user  *)
(* supplied convergence controller with a small control order acts):       *)
(*   res  : is the residual <= restol?                                     *)
(*   rs   : does an estimator request a restart of this step?              *)
(*   dtn  : proposed new step size (multiplier code, 0 = no proposal)      *)
(*   fd/fc: force_done / force_continue                                    *)
(* Times live on an integer lattice of ticks.                              *)
(*                                                                         *)
(* Deliberate deviations of the code are modelled, not idealised; they are *)
(* marked DEVIATION below.                                                 *)
(***************************************************************************)
EXTENDS Integers, Sequences, FiniteSets, SequencesExt, TLC, Json

CONSTANTS
    NP,         \* number of step objects handed to the controller
    NL,         \* number of levels, level 0 = finest
    MAXITER,    \* step_params.maxiter
    NSW,        \* <<nsweeps on level 0, ..., nsweeps on level NL-1>> (1-indexed tuple)
    PRED,       \* "none" | "fine_only" | "pfasst_burnin" | "bogus"
    JAC,        \* controller_params.mssdc_jac
    A2D,        \* controller_params.all_to_done
    MAXR,       \* BasicRestarting.max_restarts
    CRASH,      \* BasicRestarting.crash_after_max_restarts
    RFF,        \* BasicRestarting.restart_from_first_step
    OW,         \* SpreadStepSizesBlockwise.overwrite_to_reach_Tend
    HIST,       \* record the oracle history (behaviour generation) or not (model checking)
    ENDDEP,     \* TRUE iff the end value is u0 + dt*sum(w f) (do_coll_update / right end not a node), i.e. depends on u[0]
    T0, TEND,   \* ticks
    DT0,        \* level_params.dt in ticks (= dt_initial)
    REUSE,      \* TRUE: the controller object was used before (e.g. an adaptive run whose last block was shorter than NP): its
                \* steps hold left-over step sizes, each DT0 or DT0/2 -- run() lays the first block out with what the steps hold
    O_RES, O_RS, O_DTN, O_FD, O_FC  \* oracle domains (subsets of BOOLEAN, multiplier codes)

Slots  == 0 .. NP - 1
Levels == 0 .. NL - 1
Coarsest == NL - 1
NoTag == <<>>
NoEnd == <<-1, -1>>

Nsw(l) == NSW[l + 1]

Stages == {"SPREAD", "PREDICT", "IT_CHECK", "IT_FINE", "IT_DOWN", "IT_COARSE", "IT_UP", "DONE"}

OracleRec == [res : O_RES, rs : O_RS, dtn : O_DTN, fd : O_FD, fc : O_FC]

VARIABLES
    phase,   \* "init" | "run" | "finished" | "crashed" | "nothing" | "commerr" | "stageerr" | "prederr" | "offlattice"
    nact,    \* number of active slots; the active slots are always 0 .. nact-1
    time,    \* [Slots -> Int] start tick of each slot (the list `time` of run())
    dt,      \* [Slots -> Int] step size of each step object (level params dt, all levels)
    st,      \* record of per-step / per-level status, see InitSt
    carry,   \* symbolic identity of the value handed to restart_block: <<"u0">>, <<"uend", n>> or <<"ustart", n>>
    acc,     \* sequence of accepted steps (records)
    rej,     \* sequence of rejected (restarted) step attempts (records)
    stats,   \* set of statistics entries written by the hooks
    nblk,    \* number of blocks started so far
    consec,  \* number of consecutive blocks that ended with a restart of their FIRST step (C09 retry budget)
    hist     \* history of consumed oracle records (GEN only; hidden by VIEW in MC)

vars == <<phase, nact, time, dt, st, carry, acc, rej, stats, nblk, consec, hist>>
view == <<phase, nact, time, dt, st, carry, acc, rej, stats, nblk, consec>>
\* the history-like variables (accepted / rejected steps, statistics) hidden: for invariants over the core state
viewCore == <<phase, nact, time, dt, st, consec>>

-----------------------------------------------------------------------------
(* Per-step state.  uv/zv/uev/resv/src are *versions*: uv[p][l] counts the   *)
(* modifications of the node values u[1..M] of step p on level l, zv[p][l]  *)
(* those of u[0]; uev[p][l] is the version pair from which the current uend *)
(* was computed (NoEnd = no uend), resv[p] the version pair the level-0      *)
(* residual was computed from, src[p][l] = <<q, v>> says u[0] was copied    *)
(* from step q's uend computed at q's version pair v (q = -1: from the      *)
(* value handed to restart_block).                                          *)

InitSt == [
    stage  |-> [p \in Slots |-> "DONE"],
    iter   |-> [p \in Slots |-> 0],
    done   |-> [p \in Slots |-> TRUE],
    pdone  |-> [p \in Slots |-> FALSE],
    fdone  |-> [p \in Slots |-> FALSE],
    fcont  |-> [p \in Slots |-> FALSE],
    rs     |-> [p \in Slots |-> FALSE],
    riar   |-> [p \in Slots |-> 0],
    dtn    |-> [p \in Slots |-> 0],
    lsweep |-> [p \in Slots |-> 1],
    tag    |-> [p \in Slots |-> [l \in Levels |-> NoTag]],
    uv     |-> [p \in Slots |-> [l \in Levels |-> 0]],
    zv     |-> [p \in Slots |-> [l \in Levels |-> 0]],
    uev    |-> [p \in Slots |-> [l \in Levels |-> NoEnd]],
    resv   |-> [p \in Slots |-> NoEnd],
    src    |-> [p \in Slots |-> [l \in Levels |-> <<-1, NoEnd>>]],
    swept  |-> [p \in Slots |-> FALSE],   \* at least one fine sweep since restart_block (C03 clause)
    nit    |-> [p \in Slots |-> 0],       \* number of pre_iteration callbacks of this attempt
    bufrs  |-> FALSE,                     \* BasicRestarting.buffers.restart
    bufmax |-> FALSE,                     \* BasicRestarting.buffers.max_restart_reached
    err    |-> "none" ]                   \* first error raised inside the stage

Active  == 0 .. nact - 1
Running(s) == {p \in 0 .. nact - 1 : s.stage[p] # "DONE"}

\* ascending sequence of a finite set of integers
Asc(S) == SetToSortSeq(S, <)
\* left fold Op(state, element) over a sequence: FoldLeft of SequencesExt
Fold(Op(_, _), s, q) == FoldLeft(Op, s, q)

IsFirst(p) == p = 0
IsLast(p)  == p = nact - 1

-----------------------------------------------------------------------------
(* Primitive operations on the step state                                  *)

Bump(s, p, l) == [s EXCEPT !.uv[p][l] = @ + 1]
EndVer(s, p, l) == <<s.uv[p][l], IF ENDDEP THEN s.zv[p][l] ELSE 0>>
FullVer(s, p, l) == <<s.uv[p][l], s.zv[p][l]>>

\* controller.send_full: "sending" = computing uend and setting the tag
Send(s, p, l) ==
    IF s.err # "none" \/ IsLast(p) THEN s
    ELSE [s EXCEPT !.uev[p][l] = EndVer(s, p, l), !.tag[p][l] = <<l, s.iter[p], p>>]

\* controller.recv_full: copy prev.uend into u[0] after comparing the tag
Recv(s, p, l) ==
    IF s.err # "none" \/ IsFirst(p) \/ s.pdone[p] THEN s
    ELSE IF s.tag[p - 1][l] # <<l, s.iter[p], p - 1>> THEN [s EXCEPT !.err = "commerr"]
    ELSE [s EXCEPT !.src[p][l] = <<p - 1, s.uev[p - 1][l]>>, !.zv[p][l] = @ + 1]

Sweep(s, p, l) == IF s.err # "none" THEN s ELSE Bump(s, p, l)

Residual0(s, p) == IF s.err # "none" THEN s ELSE [s EXCEPT !.resv[p] = FullVer(s, p, 0)]

EndPoint(s, p, l) == [s EXCEPT !.uev[p][l] = EndVer(s, p, l)]

\* restrict l -> l+1 writes the coarse level; prolong l -> l-1 writes the fine level
RestrictTo(s, p, l) == IF s.err # "none" THEN s
                       ELSE [s EXCEPT !.uv[p][l + 1] = @ + 1, !.zv[p][l + 1] = @ + 1, !.src[p][l + 1] = <<-2, NoEnd>>]
ProlongTo(s, p, l)  == IF s.err # "none" THEN s ELSE Bump(s, p, l - 1)

SetStage(s, R, name) == [s EXCEPT !.stage = [p \in Slots |-> IF p \in R THEN name ELSE s.stage[p]]]

-----------------------------------------------------------------------------
(* Stages                                                                  *)

SendRecvAll(s, R, l) ==
    LET op(x, p) == Recv(Send(x, p, l), p, l) IN Fold(op, s, Asc(R))

SweepAll(s, R, l) ==
    LET op(x, p) == Sweep(x, p, l) IN Fold(op, s, Asc(R))

Spread(s, R) ==
    LET op(x, p) == Bump(x, p, 0) IN
    SetStage(Fold(op, s, Asc(R)), R, IF NL > 1 THEN "PREDICT" ELSE "IT_CHECK")

\* pfasst_burnin: triangle of coarse sweeps
RECURSIVE BurnIn(_, _, _)
BurnIn(s, Rq, q) ==
    \* Rq: sequence of running slots, q: 1-based start index
    IF q > Len(Rq) THEN s
    ELSE LET sweepsend(x, i) == Send(Sweep(x, Rq[i], Coarsest), Rq[i], Coarsest)
             recv(x, i)      == Recv(x, Rq[i], Coarsest)
             s1 == Fold(sweepsend, s, [i \in 1 .. (Len(Rq) - q + 1) |-> q + i - 1])
             s2 == Fold(recv, s1, [i \in 1 .. (Len(Rq) - q) |-> q + i])
         IN BurnIn(s2, Rq, q + 1)

Predict(s, R) ==
    LET Rq == Asc(R)
        downAll(x, p) == Fold(LAMBDA y, l : RestrictTo(y, p, l), x, [i \in 1 .. NL - 1 |-> i - 1])
        upOne(x, p)   == LET y == Fold(LAMBDA z, l : ProlongTo(z, p, l), x, [i \in 1 .. NL - 1 |-> NL - i])
                         IN Recv(Send(y, p, 0), p, 0)
        body ==
            CASE PRED = "none"      -> s
              [] PRED = "fine_only" -> SweepAll(s, R, 0)
              [] PRED = "pfasst_burnin" ->
                    LET s1 == Fold(downAll, s, Rq)
                        s2 == BurnIn(s1, Rq, 1)
                        s3 == Fold(upOne, s2, Rq)
                    IN SweepAll(s3, R, 0)
              [] OTHER -> [s EXCEPT !.err = "prederr"]
    IN IF body.err # "none" THEN body ELSE SetStage(body, R, "IT_CHECK")

ItFine(s, R) ==
    LET s0 == [s EXCEPT !.lsweep = [p \in Slots |-> IF p \in R THEN 0 ELSE s.lsweep[p]]]
        one(x, k) ==
            LET x1 == [x EXCEPT !.lsweep = [p \in Slots |-> IF p \in R THEN x.lsweep[p] + 1 ELSE x.lsweep[p]]]
                x2 == SendRecvAll(x1, R, 0)
                sw(y, p) == LET z == Residual0(Sweep(y, p, 0), p) IN [z EXCEPT !.swept[p] = TRUE]
            IN Fold(sw, x2, Asc(R))
        s1 == Fold(one, s0, [k \in 1 .. Nsw(0) |-> k])
    IN SetStage(s1, R, "IT_CHECK")

ItDown(s, R) ==
    LET Rq == Asc(R)
        s0 == Fold(LAMBDA x, p : RestrictTo(x, p, 0), s, Rq)
        mid(x, l) ==
            LET once(y, k) == SweepAll(SendRecvAll(y, R, l), R, l)
                y1 == Fold(once, x, [k \in 1 .. Nsw(l) |-> k])
            IN Fold(LAMBDA z, p : RestrictTo(z, p, l), y1, Rq)
        s1 == Fold(mid, s0, [i \in 1 .. NL - 2 |-> i])
    IN SetStage(s1, R, "IT_COARSE")

ItCoarse(s, R) ==
    LET c == Coarsest
        one(x, p) == Send(Sweep(Recv(x, p, c), p, c), p, c)
        s1 == Fold(one, s, Asc(R))
        s2 == IF NL = 1 THEN [s1 EXCEPT !.swept = [p \in Slots |-> s1.swept[p] \/ p \in R],
                                        !.resv = [p \in Slots |-> IF p \in R THEN FullVer(s1, p, 0) ELSE s1.resv[p]]]
              ELSE s1
    IN SetStage(s2, R, IF NL > 1 THEN "IT_UP" ELSE "IT_CHECK")

ItUp(s, R) ==
    LET Rq == Asc(R)
        lvl(x, l) ==   \* l runs from Coarsest down to 1
            LET x1 == Fold(LAMBDA y, p : ProlongTo(y, p, l), x, Rq)
            IN IF l - 1 > 0
               THEN Fold(LAMBDA y, k : SweepAll(SendRecvAll(y, R, l - 1), R, l - 1), x1, [k \in 1 .. Nsw(l - 1) |-> k])
               ELSE x1
        s1 == Fold(lvl, s, [i \in 1 .. NL - 1 |-> NL - i])
    IN SetStage(s1, R, "IT_FINE")

-----------------------------------------------------------------------------
(* IT_CHECK: three sequential loops over the running steps                 *)

\* CheckConvergence.check_convergence
\* DEVIATION: restart_block sets level.status.sweep = 1, so the guard
\* "iter > 0 or sweep > 0" is true even before the first sweep.
Converged(s, p, resok) ==
    /\ \/ s.iter[p] >= MAXITER
       \/ (resok /\ (s.iter[p] > 0 \/ s.lsweep[p] > 0))
       \/ s.fdone[p]
    /\ ~ s.fcont[p]

\* loop 2 body for one step: oracle (order -100), BasicRestarting (95), CheckConvergence (200)
ConvControl(s, p, o) ==
    IF s.err # "none" THEN s ELSE
    LET \* scripted oracle / estimator stand-in
        a  == [s EXCEPT !.rs[p]    = @ \/ o.rs,
                        !.dtn[p]   = o.dtn,
                        !.fdone[p] = @ \/ o.fd,
                        !.fcont[p] = o.fc]
        \* BasicRestartingNonMPI.determine_restart
        bm == IF IsFirst(p) THEN a.riar[p] >= MAXR ELSE a.bufmax
        crash == IsFirst(p) /\ bm /\ a.rs[p] /\ CRASH
        br == a.rs[p] \/ a.bufrs
        b  == [a EXCEPT !.bufmax = bm, !.bufrs = br, !.rs[p] = (a.rs[p] \/ br) /\ ~bm]
        R  == Running(s)
        c  == IF IsLast(p) /\ RFF /\ ~bm
              THEN [b EXCEPT !.rs = [q \in Slots |-> IF q \in R THEN br ELSE b.rs[q]]]
              ELSE b
        \* CheckConvergence.check_iteration_status
        d  == [c EXCEPT !.done[p] = Converged(c, p, o.res), !.fcont[p] = FALSE]
    IN IF crash THEN [a EXCEPT !.err = "crashed", !.bufmax = bm] ELSE d

\* loop 3 body for one step
Propagate(s, p, R, nR) ==
    IF s.err # "none" THEN s ELSE
    LET a == IF IsFirst(p) THEN s
             ELSE [s EXCEPT !.pdone[p] = s.done[p - 1], !.done[p] = s.done[p] /\ s.done[p - 1]]
        b == IF A2D THEN [a EXCEPT !.done[p] = \A q \in R : a.done[q]] ELSE a
    IN IF ~ b.done[p]
       THEN [b EXCEPT !.iter[p] = @ + 1, !.nit[p] = @ + 1,
                      !.stage[p] = IF NL > 1 THEN "IT_DOWN"
                                   ELSE IF nR = 1 \/ JAC THEN "IT_FINE" ELSE "IT_COARSE"]
       ELSE [EndPoint(b, p, 0) EXCEPT !.stage[p] = "DONE"]

ItCheck(s, R, orc) ==
    LET Rq == Asc(R)
        l1(x, p) == Residual0(Recv(Send(x, p, 0), p, 0), p)
        s1 == Fold(l1, s, Rq)
        s2 == Fold(LAMBDA x, p : ConvControl(x, p, orc[p]), s1, Rq)
        s3 == Fold(LAMBDA x, p : Propagate(x, p, R, Cardinality(R)), s2, Rq)
    IN [s3 EXCEPT !.bufrs = FALSE, !.bufmax = FALSE]

-----------------------------------------------------------------------------
(* Statistics written by DefaultHooks / LogRestarts / LogStepSize /         *)
(* LogSolution in post_step.  num_restarts = restarts_in_a_row of the step. *)
(* Entry = <<type, time, iter, num_restarts, process, value>>.  The         *)
(* dictionary semantics (a later write with the same key replaces the       *)
(* earlier one) is kept by removing entries with an equal key first.        *)

KeyOf(e) == <<e[1], e[2], e[3], e[4], e[5], e[6]>>
\* add_to_stats replaces; increment_stats (LogSDCIterations, type "k") adds to the value already stored under the key
Incremented == {"k"}
Put(S, e) ==
    LET old == {x \in S : KeyOf(x) = KeyOf(e)}
    IN IF e[1] \in Incremented /\ old # {}
       THEN (S \ old) \cup {<<e[1], e[2], e[3], e[4], e[5], e[6], e[7] + (CHOOSE x \in old : TRUE)[7]>>}
       ELSE (S \ old) \cup {e}
RECURSIVE PutAll(_, _)
PutAll(S, q) == IF q = <<>> THEN S ELSE PutAll(Put(S, Head(q)), Tail(q))

\* entries <<type, time, iter, num_restarts, process, sweep, value>> written at post_step of step p
\* (state s after the IT_CHECK pass)
PostStepEntries(s, p) ==
    LET t == time[p]
        r == IF s.rs[p] THEN 1 ELSE 0
        sw == s.lsweep[p]
    IN
    << <<"niter", t, s.iter[p], s.riar[p], p, sw, s.iter[p]>>,
       <<"_recomputed", t, -1, s.riar[p], -1, -1, r>>,
       <<"_recomputed", t + dt[p], -1, s.riar[p], -1, -1, r>>,
       <<"restart", t, s.iter[p], s.riar[p], p, sw, r>>,
       <<"dt", t, s.iter[p], s.riar[p], p, sw, dt[p]>>,
       <<"u", t + dt[p], s.iter[p], s.riar[p], p, sw, 0>>,
       \* LogWork / LogSDCIterations: keyed by the END time of the step (the recorded amount of work is compared with the calls
       \* actually made in the trace specification, clause stats.work_counters)
       <<"work_rhs", t + dt[p], s.iter[p], s.riar[p], p, sw, 0>>,
       <<"k", t + dt[p], s.iter[p], s.riar[p], p, sw, s.iter[p]>> >>

\* DefaultHooks.post_iteration: every running step with iter > 0 records its residual, keyed by its own restart count
IterEntries(s0) ==
    {<<"residual_post_iteration", time[p], s0.iter[p], s0.riar[p], p, s0.lsweep[p], 0>> : p \in {q \in Running(s0) : s0.iter[q] > 0}}

StatsAfterCheck(S0, s0, s1) ==
    \* steps that turned DONE in this IT_CHECK pass write their post_step entries, in slot order
    LET S == PutAll(S0, SetToSeq(IterEntries(s0)))
        newly == Asc({p \in Active : s0.stage[p] # "DONE" /\ s1.stage[p] = "DONE"})
        RECURSIVE go(_, _)
        go(T, q) == IF q = <<>> THEN T ELSE go(PutAll(T, PostStepEntries(s1, Head(q))), Tail(q))
    IN go(S, newly)

\* ---- transcription of pySDC.helpers.stats_helper.filter_stats(stats, type=T, recomputed=False) ----
OfType(S, T) == {e \in S : e[1] = T}
MaxNr(S, t) == LET N == {e[4] : e \in {x \in S : x[2] = t}} IN CHOOSE m \in N : \A k \in N : k <= m
\* "delete values that have been recorded and superseded by similar, but not identical keys"
KeepLatest(S) == {e \in S : e[4] = MaxNr(S, e[2])}
\* times at which the latest `_recomputed` marker says "restarted"
RecomputedTimes(S) == {e[2] : e \in {x \in KeepLatest(OfType(S, "_recomputed")) : x[7] = 1}}
FilterRecomputed(S, T) ==
    IF T = "_recomputed" THEN KeepLatest(OfType(S, T))
    ELSE {e \in KeepLatest(OfType(S, T)) : e[2] \notin RecomputedTimes(S)}

EndKeyed == {"u", "work_rhs", "k"}
PerStepTypes == {"niter", "restart", "dt", "u", "work_rhs", "k"}
\* C14: after filtering out recomputed values exactly the records of the accepted steps are left:
\* one record per accepted step and type, keyed by its start time (end time for "u")
OnePerAccepted(S, T, accs) ==
    LET F == FilterRecomputed(S, T)
        key(a) == IF T \in EndKeyed THEN a.t + a.dt ELSE a.t
    IN /\ Cardinality(F) = Len(accs)
       /\ \A i \in 1 .. Len(accs) : Cardinality({e \in F : e[2] = key(accs[i])}) = 1
\* filter_stats(stats, recomputed=False) WITHOUT a type: superseded generations are removed per type, then everything at
\* the times of restarted steps
FilterRecomputedAll(S) ==
    LET types == {e[1] : e \in S}
        kept == UNION {KeepLatest(OfType(S, T)) : T \in types}
    IN {e \in kept : e[2] \notin RecomputedTimes(S)}
\* the number of per-iteration records of an accepted step equals its iteration count
IterRecordsMatch(S, accs) ==
    \A i \in 1 .. Len(accs) :
        Cardinality({e \in FilterRecomputed(S, "residual_post_iteration") : e[2] = accs[i].t}) = accs[i].niter
NiterRecorded(S, accs) ==
    \A i \in 1 .. Len(accs) : \A e \in FilterRecomputed(S, "niter") : e[2] = accs[i].t => e[7] = accs[i].niter

-----------------------------------------------------------------------------
(* restart_block                                                           *)

RestartBlock(s, n) ==
    [s EXCEPT
        !.stage  = [p \in Slots |-> IF p < n THEN "SPREAD" ELSE s.stage[p]],
        !.iter   = [p \in Slots |-> IF p < n THEN 0 ELSE s.iter[p]],
        !.nit    = [p \in Slots |-> IF p < n THEN 0 ELSE s.nit[p]],
        !.done   = [p \in Slots |-> IF p < n THEN FALSE ELSE s.done[p]],
        !.pdone  = [p \in Slots |-> IF p < n THEN FALSE ELSE s.pdone[p]],
        !.fdone  = [p \in Slots |-> IF p < n THEN FALSE ELSE s.fdone[p]],
        !.rs     = [p \in Slots |-> FALSE],
        !.dtn    = [p \in Slots |-> IF p < n THEN 0 ELSE s.dtn[p]],
        !.lsweep = [p \in Slots |-> IF p < n THEN 1 ELSE s.lsweep[p]],
        !.swept  = [p \in Slots |-> IF p < n THEN FALSE ELSE s.swept[p]],
        !.tag    = [p \in Slots |-> IF p < n THEN [l \in Levels |-> NoTag] ELSE s.tag[p]],
        !.uv     = [p \in Slots |-> IF p < n THEN [l \in Levels |-> 0] ELSE s.uv[p]],
        !.zv     = [p \in Slots |-> IF p < n THEN [l \in Levels |-> 0] ELSE s.zv[p]],
        !.uev    = [p \in Slots |-> IF p < n THEN [l \in Levels |-> NoEnd] ELSE s.uev[p]],
        !.resv   = [p \in Slots |-> IF p < n THEN NoEnd ELSE s.resv[p]],
        !.src    = [p \in Slots |-> IF p < n THEN [l \in Levels |-> <<-1, NoEnd>>] ELSE s.src[p]],
        !.err    = "none"]

NumActive(tm) == Cardinality({p \in Slots : tm[p] < TEND})

-----------------------------------------------------------------------------
(* Block end: hand-over, prepare_next_block of BasicRestarting and          *)
(* SpreadStepSizesBlockwise (both iterate over ALL steps of the controller  *)
(* in list order and update them in place), new times, new active set.      *)

FirstRestart(s) == IF \E p \in Active : s.rs[p]
                   THEN CHOOSE p \in Active : s.rs[p] /\ \A q \in Active : s.rs[q] => p <= q
                   ELSE nact

\* BasicRestartingNonMPI.prepare_next_block: all counters are computed from the values at the block end
\* (new first step = first restarted step, its counter + 1; steps that were not restarted start from 0)
PrepAllRiar(ri, p0, s) ==
    LET rf == IF FirstRestart(s) < nact THEN FirstRestart(s) ELSE nact - 1 IN
    [p \in Slots |-> IF p >= nact THEN ri[p]
                     ELSE IF p + rf < nact /\ s.rs[p + rf] THEN ri[p + rf] + 1 ELSE 0]

\* proposal of a step in ticks (level.status.dt_new); 0 means "no proposal" (None)
Proposal(d, p, s) == s.dtn[p]
ProposalExact(d, p, s) == TRUE

Min2(a, b) == IF a <= b THEN a ELSE b
Max2(a, b) == IF a >= b THEN a ELSE b

\* index (slot) from which the new step size is taken
SpreadFrom(d, s) ==
    LET ra == FirstRestart(s) IN
    IF ra < nact
    THEN IF ~RFF THEN ra      \* spread_from_first_restarted = not restart_from_first_step
         ELSE LET big == 1000000
                  ns(q) == IF s.dtn[q] = 0 THEN big ELSE Proposal(d, q, s)
              IN CHOOSE q \in ra .. nact - 1 :
                    /\ \A r \in ra .. nact - 1 : ns(q) <= ns(r)
                    /\ \A r \in ra .. q - 1 : ns(r) > ns(q)     \* argmin = first minimum
    ELSE nact - 1

RestartAtForSpread(s) == IF FirstRestart(s) < nact THEN FirstRestart(s) ELSE nact - 1

\* SpreadStepSizesBlockwiseNonMPI.prepare_next_block for S = p, in place on d
\* tm is the `time` list as it is at that moment (slot 0 already overwritten)
\* (Tend - start of the next block) ; the controller stored the start of the next block in time[0] before the call
DtMaxNum(d, tm, s) == TEND - tm[0]

\* min(prop, max(num/nact, DT0)) evaluated without division where possible
SpreadValue(prop, num) ==
    IF ~OW THEN prop
    ELSE IF num >= prop * nact THEN prop
    ELSE IF num <= DT0 * nact THEN Min2(prop, DT0)
    ELSE num \div nact
SpreadValueExact(prop, num) ==
    ~OW \/ num >= prop * nact \/ num <= DT0 * nact \/ num % nact = 0

PrepDt(d, p, tm, s) ==
    IF p >= nact THEN d ELSE
    LET sf   == SpreadFrom(d, s)
        prop == IF s.dtn[sf] = 0 THEN d[sf] ELSE Proposal(d, sf, s)
    IN [d EXCEPT ![p] = SpreadValue(prop, DtMaxNum(d, tm, s))]

PrepDtExact(d, p, tm, s) ==
    p >= nact \/
    LET sf   == SpreadFrom(d, s)
        prop == IF s.dtn[sf] = 0 THEN d[sf] ELSE Proposal(d, sf, s)
    IN ProposalExact(d, sf, s) /\ SpreadValueExact(prop, DtMaxNum(d, tm, s))

RECURSIVE PrepAllDt(_, _, _, _)
PrepAllDt(d, p, tm, s) == IF p >= NP THEN d ELSE PrepAllDt(PrepDt(d, p, tm, s), p + 1, tm, s)

RECURSIVE PrepAllDtExact(_, _, _, _)
PrepAllDtExact(d, p, tm, s) ==
    IF p >= NP THEN TRUE
    ELSE PrepDtExact(d, p, tm, s) /\ PrepAllDtExact(PrepDt(d, p, tm, s), p + 1, tm, s)

RECURSIVE NewTimes(_, _, _)
NewTimes(tm, d, i) == IF i >= nact THEN tm ELSE NewTimes([tm EXCEPT ![i] = tm[i - 1] + d[i - 1]], d, i + 1)

AccRec(p, s) == [t |-> time[p], dt |-> dt[p], niter |-> s.iter[p], nit |-> s.nit[p], slot |-> p,
                 riar |-> s.riar[p], blk |-> nblk,
                 nosweep |-> ~ s.swept[p] /\ ~ s.fdone[p] /\ s.iter[p] < MAXITER,
                 chained |-> IF p = 0 THEN TRUE
                             ELSE s.src[p][0] = <<p - 1, EndVer(s, p - 1, 0)>> /\ s.uev[p - 1][0] = EndVer(s, p - 1, 0),
                 endok |-> s.uev[p][0] = EndVer(s, p, 0)]

-----------------------------------------------------------------------------
(* Actions                                                                 *)

RECURSIVE SumBefore(_, _)
SumBefore(d, p) == IF p = 0 THEN 0 ELSE d[p - 1] + SumBefore(d, p - 1)
\* start times of the first block: t0 + sum of the step sizes of the preceding steps (controller_nonMPI.run)
StartTimes(d) == [p \in Slots |-> T0 + SumBefore(d, p)]
LeftOver == IF REUSE /\ DT0 % 2 = 0 THEN [Slots -> {DT0, DT0 \div 2}] ELSE {[p \in Slots |-> DT0]}

Init ==
    /\ phase = "init"
    /\ nact = 0
    /\ time = [p \in Slots |-> 0]
    /\ dt \in LeftOver
    /\ st = InitSt
    /\ carry = <<"u0">>
    /\ acc = <<>>
    /\ rej = <<>>
    /\ stats = {}
    /\ nblk = 0
    /\ consec = 0
    /\ hist = <<>>

RunStart ==
    /\ phase = "init"
    /\ LET tm == StartTimes(dt)
           n  == NumActive(tm)
       IN /\ time' = tm
          /\ nact' = n
          /\ IF n = 0
             THEN /\ phase' = "nothing"
                  /\ UNCHANGED <<st, nblk>>
             ELSE /\ phase' = "run"
                  /\ st' = RestartBlock(st, n)
                  /\ nblk' = 1
    /\ UNCHANGED <<dt, carry, acc, rej, stats, consec, hist>>

AllDone == \A p \in Active : st.done[p]

StageOf(s) == LET R == Running(s) IN IF R = {} THEN "DONE" ELSE s.stage[CHOOSE p \in R : TRUE]
StagesEqual(s) == \A p, q \in Running(s) : s.stage[p] = s.stage[q]

\* the oracle offers step-size proposals as multiplier codes m (dt*m/2); the state holds ticks
OrcAbs(orc) == [p \in DOMAIN orc |-> [orc[p] EXCEPT !.dtn = IF @ = 0 THEN 0 ELSE (dt[p] * @) \div 2]]
OrcExact(orc) == \A p \in DOMAIN orc : orc[p].dtn = 0 \/ (dt[p] * orc[p].dtn) % 2 = 0
NoOracle(R) == [p \in R |-> [res |-> FALSE, rs |-> FALSE, dtn |-> 0, fd |-> FALSE, fc |-> FALSE]]

\* the effect of one call of controller.pfasst() on the step state, given the (absolute) oracle records
DoStage(s, orc) ==
    LET R  == Running(s)
        sg == StageOf(s)
    IN CASE sg = "SPREAD"    -> Spread(s, R)
         [] sg = "PREDICT"   -> Predict(s, R)
         [] sg = "IT_CHECK"  -> ItCheck(s, R, orc)
         [] sg = "IT_FINE"   -> ItFine(s, R)
         [] sg = "IT_DOWN"   -> ItDown(s, R)
         [] sg = "IT_COARSE" -> ItCoarse(s, R)
         [] sg = "IT_UP"     -> ItUp(s, R)

StageStepWith(orc) ==
    LET sg == StageOf(st)
        nx == DoStage(st, orc)
    IN /\ st' = nx
       /\ phase' = IF nx.err = "none" THEN "run" ELSE nx.err
       /\ stats' = IF sg = "IT_CHECK" /\ nx.err = "none" THEN StatsAfterCheck(stats, st, nx) ELSE stats
       /\ hist' = IF HIST /\ sg = "IT_CHECK"
                  THEN hist \o [i \in 1 .. Cardinality(DOMAIN orc) |->
                                LET p == Asc(DOMAIN orc)[i] IN
                                <<p, orc[p].res, orc[p].rs, orc[p].dtn, orc[p].fd, orc[p].fc>>]
                  ELSE hist
       /\ UNCHANGED <<nact, time, dt, carry, acc, rej, nblk, consec>>

\* one call of controller.pfasst()
StageStep ==
    /\ phase = "run"
    /\ ~ AllDone
    /\ LET R == Running(st) IN
       IF ~ StagesEqual(st) THEN
            /\ phase' = "stageerr"
            /\ UNCHANGED <<nact, time, dt, st, carry, acc, rej, stats, nblk, consec, hist>>
       ELSE IF StageOf(st) # "IT_CHECK" THEN StageStepWith(NoOracle(R))
       ELSE \E orc \in [R -> OracleRec] :
                /\ OrcExact(orc)
                \* reductions (model checking only): choices that cannot influence the successor are fixed
                /\ \A p \in R : (st.iter[p] >= MAXITER => ~ orc[p].res) /\ (st.rs[p] => ~ orc[p].rs)
                                 /\ (st.fdone[p] => ~ orc[p].fd)
                \* reduction: a step-size proposal is overwritten at every check, so only the one made at a
                \* check at which the step can finish is ever read; proposals elsewhere are not explored
                /\ \A p \in R : orc[p].dtn # 0 => Converged([st EXCEPT !.fdone[p] = @ \/ orc[p].fd, !.fcont[p] = orc[p].fc],
                                                           p, orc[p].res)
                /\ StageStepWith(OrcAbs(orc))

\* block end of controller.run()
BlockEnd ==
    /\ phase = "run"
    /\ AllDone
    /\ LET ra   == FirstRestart(st)
           tm0  == IF ra < nact THEN [time EXCEPT ![0] = time[ra]]
                   ELSE [time EXCEPT ![0] = time[nact - 1] + dt[nact - 1]]
           newacc == [i \in 1 .. ra |-> AccRec(i - 1, st)]
           newrej == [i \in 1 .. (nact - ra) |-> AccRec(ra + i - 1, st)]
           ri   == PrepAllRiar(st.riar, 0, st)
           exact == PrepAllDtExact(dt, 0, tm0, st)
           d    == PrepAllDt(dt, 0, tm0, st)
           tm1  == NewTimes(tm0, d, 1)
           n    == NumActive(tm1)
       IN IF ~ exact
          THEN /\ phase' = "offlattice"
               /\ UNCHANGED <<nact, time, dt, st, carry, acc, rej, stats, nblk, consec, hist>>
          ELSE
            /\ consec' = IF ra = 0 THEN consec + 1 ELSE 0
            /\ carry' = IF ra < nact THEN <<"ustart", Len(acc) + ra>> ELSE <<"uend", Len(acc) + nact>>
            /\ acc' = acc \o newacc
            /\ rej' = rej \o newrej
            /\ dt' = d
            /\ time' = tm1
            /\ nact' = n
            /\ st' = RestartBlock([st EXCEPT !.riar = ri], n)
            /\ phase' = IF n = 0 THEN "finished" ELSE "run"
            /\ nblk' = IF n = 0 THEN nblk ELSE nblk + 1
            /\ UNCHANGED <<stats, hist>>

Terminal == phase \in {"finished", "crashed", "nothing", "commerr", "stageerr", "prederr", "offlattice"}

Done == Terminal /\ UNCHANGED vars

Next == RunStart \/ StageStep \/ BlockEnd \/ Done

Spec == Init /\ [][Next]_vars

\* behaviour generation (GEN): no stuttering at terminal states; the oracle history is printed there
NextGen == RunStart \/ StageStep \/ BlockEnd
GenSpec == Init /\ [][NextGen]_vars
\* the consumed oracle records in consumption order: per IT_CHECK pass, running slots ascending
HistSeq == [i \in 1 .. Len(hist) |-> [s |-> hist[i][1], res |-> hist[i][2], rs |-> hist[i][3], dtn |-> hist[i][4],
                                      fd |-> hist[i][5], fc |-> hist[i][6]]]
GenPrint == Terminal => PrintT(ToJson([gen |-> TRUE, ph |-> phase, nacc |-> Len(acc), nrej |-> Len(rej), script |-> HistSeq]))

FairSpec == Spec /\ WF_vars(RunStart \/ StageStep \/ BlockEnd)

-----------------------------------------------------------------------------
(* Properties                                                              *)

TypeOK ==
    /\ phase \in {"init", "run", "finished", "crashed", "nothing", "commerr", "stageerr", "prederr", "offlattice"}
    /\ nact \in 0 .. NP
    /\ \A p \in Slots : st.stage[p] \in Stages /\ st.iter[p] \in Nat /\ dt[p] \in Nat

InRun == phase = "run"

\* ---- C07: block protocol ----
\* steps finish in time order
FinishInOrder == InRun => \A p, q \in Active : (q < p /\ st.done[p] /\ st.stage[p] = "DONE") => st.stage[q] = "DONE"
\* all running steps are in the same stage (ControllerError unreachable)
LockStep == phase # "stageerr" /\ (InRun => StagesEqual(st))
\* every forward transfer is consumed with matching level, iteration and sender
TagMatch == phase # "commerr"
NoPredictError == PRED \in {"none", "fine_only", "pfasst_burnin"} => phase # "prederr"
\* all running steps share the iteration counter (what makes the tags match)
IterEqual == InRun => \A p, q \in Running(st) : st.iter[p] = st.iter[q]
\* a received value always stems from a send of the current block
RecvFromSend == InRun => \A p \in Active : \A l \in Levels : st.src[p][l][1] >= 0 => st.src[p][l][2] # NoEnd
\* a finished step is never changed again (until the next restart_block)
DoneStable == [][(phase = "run" /\ phase' = "run" /\ nblk' = nblk) =>
                    \A p \in Slots : (p < nact /\ st.stage[p] = "DONE") =>
                        /\ st'.stage[p] = "DONE" /\ st'.iter[p] = st.iter[p] /\ st'.uv[p] = st.uv[p] /\ st'.zv[p] = st.zv[p]
                        /\ st'.uev[p] = st.uev[p] /\ st'.done[p] = st.done[p] /\ st'.src[p] = st.src[p]
                        /\ st'.rs[p] = st.rs[p] ]_vars
\* with all_to_done every step of a block performs the same number of iterations
A2DEqualIters == (A2D /\ InRun /\ AllDone) => \A p, q \in Active : st.iter[p] = st.iter[q]
\* a step is in stage DONE exactly when its done flag is set after an IT_CHECK pass
DoneIffStageDone == InRun => \A p \in Active : (st.stage[p] = "DONE") => st.done[p]
\* termination of every block / the run (checked under FairSpec)
Terminates == <>Terminal

\* ---- C03: stopping is sound ----
IterBudget == InRun => \A p \in Active : st.iter[p] <= MAXITER \/ (TRUE \in O_FC)
NiterFaithful == \A i \in 1 .. Len(acc) : acc[i].niter = acc[i].nit
ResidualFresh == InRun => \A p \in Active : (st.stage[p] = "DONE") => st.resv[p] = FullVer(st, p, 0)
EndPointFresh == \A i \in 1 .. Len(acc) : acc[i].endok
\* clause "after at least one sweep": reported separately (suspected deviation)
DoneAfterSweep == \A i \in 1 .. Len(acc) : ~ acc[i].nosweep

\* ---- C06: tiling and chaining ----
TileStart == Len(acc) > 0 => acc[1].t = T0
TileContiguous == \A i \in 1 .. Len(acc) - 1 : acc[i + 1].t = acc[i].t + acc[i].dt
NoStartBeyondTend == \A i \in 1 .. Len(acc) : acc[i].t < TEND
NoEarlyStop == phase = "finished" => (Len(acc) > 0 /\ acc[Len(acc)].t + acc[Len(acc)].dt >= TEND)
ChainValues == \A i \in 1 .. Len(acc) : acc[i].chained
ReturnIsLast == phase = "finished" => carry = <<"uend", Len(acc)>>
CarryConsistent == InRun => (carry = <<"u0">> /\ Len(acc) = 0) \/ (carry[1] = "uend" /\ carry[2] = Len(acc))
                                \/ (carry[1] = "ustart" /\ carry[2] = Len(acc))
NextBlockStartsAtEnd == InRun => time[0] = (IF Len(acc) = 0 THEN T0 ELSE acc[Len(acc)].t + acc[Len(acc)].dt)
NothingOnlyIfEmpty == phase = "nothing" => T0 >= TEND
PosDt == \A p \in Slots : dt[p] > 0
\* fixed step size: number of accepted steps = ceil((TEND - T0) / DT0)
FixedStepCount == (phase = "finished" /\ O_DTN = {0} /\ O_RS = {FALSE}) =>
                        Len(acc) = (TEND - T0 + DT0 - 1) \div DT0

\* ---- C09: restarts and step sizes ----
OneDtPerBlock == InRun => \A p, q \in Active : dt[p] = dt[q]
OneDtPerBlockAll == InRun => \A p, q \in Slots : dt[p] = dt[q]
\* steps before the first restarted one are kept; the next block starts at the restarted step
KeepEarlier == TRUE   \* by construction of BlockEnd; bound by trace validation
\* consecutive rejected attempts of the same start time are bounded
RECURSIVE CountTrailing(_, _, _)
CountTrailing(q, t, i) == IF i = 0 \/ q[i].t # t \/ q[i].slot # 0 THEN 0 ELSE 1 + CountTrailing(q, t, i - 1)
RejectedFirst == SelectSeq(rej, LAMBDA r : r.slot = 0)
RetryBudget == consec <= MAXR
RetryBudgetRiar == \A i \in 1 .. Len(RejectedFirst) : RejectedFirst[i].riar < MAXR
CrashOnlyAfterBudget == phase = "crashed" => (CRASH /\ st.riar[0] >= MAXR)

\* ---- C14: statistics ----
StatsOnePerStep == phase = "finished" => \A T \in PerStepTypes : OnePerAccepted(stats, T, acc)
StatsNiter == phase = "finished" => NiterRecorded(stats, acc)
StatsIterRecords == phase = "finished" => IterRecordsMatch(stats, acc)

=============================================================================
