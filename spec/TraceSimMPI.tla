------------------------------ MODULE TraceSimMPI ------------------------------
(***************************************************************************)
(* Validation of event logs of the simulated MPI recorded while the REAL   *)
(* controller_MPI (and the MPI flavours of the convergence controllers)    *)
(* ran under a given schedule.  Total verdict per run:                     *)
(*   - every match pairs the oldest send and receive of one envelope       *)
(*   - a buffer handed to a non-blocking send is unchanged at completion   *)
(*   - a rank never waits on a request it does not own                     *)
(*   - at the end no send and no receive is left unmatched                 *)
(*   - data messages carry tag level*100 + iteration, status messages the  *)
(*     control order of their convergence controller                       *)
(***************************************************************************)
EXTENDS SimMPI, Json, IOUtils, TLCExt, TLC, SequencesExt

Batch == JsonDeserialize(IOEnv.TRACE_FILE)
Runs == Batch.runs

VARIABLES tid, l, sends, recvs, owner, done, viol, nord

vars == <<tid, l, sends, recvs, owner, done, viol, nord>>

Ev == Runs[tid].ev
HasLine == tid <= Len(Runs) /\ l <= Len(Ev)
E == Ev[l]
V(c, name) == IF c THEN {} ELSE {<<l, name>>}

Init == tid = 1 /\ l = 1 /\ sends = {} /\ recvs = {} /\ owner = <<>> /\ done = {} /\ viol = {} /\ nord = 0

Post ==
    /\ HasLine /\ E.k \in {"post_send", "post_recv"}
    /\ LET op == [id |-> E.req, comm |-> E.comm, src |-> E.src, dst |-> E.dst, tag |-> E.tag, ord |-> nord]
       IN IF E.k = "post_send" THEN sends' = sends \cup {op} /\ recvs' = recvs
                                ELSE recvs' = recvs \cup {op} /\ sends' = sends
    /\ owner' = owner @@ (E.req :> E.r)
    /\ nord' = nord + 1
    /\ viol' = viol \cup V(E.k = "post_recv" \/ E.mode \in {"Issend", "Isend", "Send", "isend", "send"}, "mpi.unknown_send_mode")
                    \cup V(E.tag >= 0, "mpi.negative_tag")
                    \cup V(E.tag < 100 * Runs[tid].nlevels \/ (\E i \in 1 .. Len(Runs[tid].status_tags) : Runs[tid].status_tags[i] = E.tag), "mpi.tag_discipline")
    /\ l' = l + 1 /\ UNCHANGED <<tid, done>>

Match ==
    /\ HasLine /\ E.k = "match"
    /\ viol' = viol \cup V(MatchLegal(sends, recvs, E.send, E.recv), "mpi.match_rule")
                    \cup V(E.csum_post = E.csum_match, "mpi.send_buffer_modified_before_completion")
                    \cup V(E.send \notin done /\ E.recv \notin done, "mpi.matched_twice")
    /\ sends' = {s \in sends : s.id # E.send}
    /\ recvs' = {r \in recvs : r.id # E.recv}
    /\ done' = done \cup {E.send, E.recv}
    /\ l' = l + 1 /\ UNCHANGED <<tid, owner, nord>>

Wait ==
    /\ HasLine /\ E.k \in {"wait", "waited", "cancel"}
    /\ viol' = viol \cup V(E.req \in DOMAIN owner /\ owner[E.req] = E.r, "mpi.wait_on_foreign_request")
                    \cup V(E.k # "waited" \/ E.req \in done, "mpi.wait_returned_before_completion")
    /\ done' = IF E.k = "cancel" THEN done \cup {E.req} ELSE done
    /\ sends' = IF E.k = "cancel" THEN {s \in sends : s.id # E.req} ELSE sends
    /\ recvs' = IF E.k = "cancel" THEN {r \in recvs : r.id # E.req} ELSE recvs
    /\ l' = l + 1 /\ UNCHANGED <<tid, owner, nord>>

Other ==
    /\ HasLine /\ E.k \notin {"post_send", "post_recv", "match", "wait", "waited", "cancel"}
    /\ viol' = viol \cup V(E.k # "deadlock", "mpi.deadlock") \cup V(E.k # "coll_mismatch", "mpi.collective_mismatch")
    /\ l' = l + 1 /\ UNCHANGED <<tid, sends, recvs, owner, done, nord>>

NextRun ==
    /\ tid <= Len(Runs) /\ l > Len(Ev)
    /\ PrintT(ToJson([tid |-> Runs[tid].tid, n |-> Len(Ev),
                      viol |-> SetToSeq(viol \cup (IF sends = {} THEN {} ELSE {<<l, "mpi.orphan_send">>})
                                             \cup (IF recvs = {} THEN {} ELSE {<<l, "mpi.unmatched_receive">>}))]))
    /\ tid' = tid + 1 /\ l' = 1 /\ sends' = {} /\ recvs' = {} /\ owner' = <<>> /\ done' = {} /\ viol' = {} /\ nord' = 0

Next == Post \/ Match \/ Wait \/ Other \/ NextRun
Spec == Init /\ [][Next]_vars
=============================================================================
