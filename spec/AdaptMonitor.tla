----------------------------- MODULE AdaptMonitor -----------------------------
(***************************************************************************)
(* C09, numeric clauses, on REAL adaptive runs (error-based step-size      *)
(* control).  A run is the chronological sequence of finished step         *)
(* attempts (post_step of the single step of a block); floats are          *)
(* projected to ranks (exact comparisons) and to booleans that the         *)
(* recorder evaluates from the LOGGED operands with the code's own         *)
(* expression (formula_ok, clip_ok).  The monitor is the state machine     *)
(*   attempt at t: accepted -> next attempt at t + dt                      *)
(*                 rejected -> next attempt at the same t, counter + 1     *)
(* and the promises of the property are evaluated on it.                   *)
(***************************************************************************)
EXTENDS Integers, Sequences, FiniteSets, TLC, Json, IOUtils, TLCExt, SequencesExt

Batch == JsonDeserialize(IOEnv.TRACE_FILE)
Runs == Batch.runs

VARIABLE i
V(c, name) == IF c THEN {} ELSE {name}

\* number of consecutive rejected attempts ending at position k
RECURSIVE Rejected(_, _)
Rejected(a, k) == IF k = 0 \/ ~ a[k].restart THEN 0 ELSE 1 + Rejected(a, k - 1)

Verdict(r) ==
    LET a == r.att
        N == Len(a)
    IN  \* every accepted step's error estimate is below the tolerance unless the retry budget was exhausted
        V(~ r.full \/ \A k \in 1 .. N : ~ a[k].restart => (a[k].est_lt_tol \/ Rejected(a, k - 1) >= r.max_restarts), "adapt.accepted_within_tolerance")
        \* an estimate at or above the tolerance leads to a restart while the budget lasts
   \cup V(~ r.full \/ \A k \in 1 .. N : (~ a[k].est_lt_tol /\ Rejected(a, k - 1) < r.max_restarts) => a[k].restart, "adapt.restart_iff_estimate_too_large")
        \* proposal = beta*dt*(tol/err)^(1/order) ...
   \cup V(~ r.full \/ \A k \in 1 .. N : a[k].formula_ok, "adapt.proposal_formula")
        \* ... clipped to the configured absolute and slope limits, limits applied after the proposal
   \cup V(~ r.full \/ \A k \in 1 .. N : a[k].clip_ok, "adapt.limits")
        \* a rejected step is retried from the same start with a smaller step unless a lower limit binds
   \cup V(\A k \in 1 .. N - 1 : a[k].restart => a[k + 1].t = a[k].t, "adapt.retry_from_same_start")
        \* ... and from the same start VALUE (content id of u[0] when the attempt ended)
   \cup V(\A k \in 1 .. N - 1 : a[k].restart => a[k + 1].u0 = a[k].u0, "adapt.retry_start_value")
   \cup V(~ r.full \/ \A k \in 1 .. N - 1 : a[k].restart => (a[k + 1].dt < a[k].dt \/ a[k].lower_limit_binds), "adapt.retry_smaller")
        \* an accepted step is followed by a step starting at its end, with the step size that was announced
   \cup V(\A k \in 1 .. N - 1 : ~ a[k].restart => a[k + 1].t = a[k].e, "adapt.advance")
   \cup V(~ r.full \/ \A k \in 1 .. N - 1 : a[k + 1].dt = a[k].dtnew \/ a[k].tend_binds, "adapt.announced_step_size_used")
        \* the retry counter the code keeps equals the number of consecutive rejections
   \cup V(\A k \in 1 .. N : a[k].riar = Rejected(a, k - 1), "adapt.retry_counter")
        \* a run always advances or stops: never more than max_restarts consecutive rejections without an error
   \cup V(\A k \in 1 .. N : Rejected(a, k) <= r.max_restarts, "adapt.retry_budget")
   \cup V(r.exc = "none" => (N > 0 /\ ~ a[N].restart /\ a[N].reaches_tend), "adapt.reaches_tend")
   \cup V(r.exc \in {"none", "ConvergenceError"}, "adapt.no_other_error")
        \* the attempt that raises the error is not logged (the error is raised before the step ends): the LOGGED attempts must end
        \* with max_restarts consecutive rejections
   \cup V(r.exc = "ConvergenceError" => Rejected(a, N) >= r.max_restarts, "adapt.error_only_after_budget")

Init == i = 1
Next == /\ i <= Len(Runs)
        /\ PrintT(ToJson([tid |-> Runs[i].tid, viol |-> SetToSeq(Verdict(Runs[i]))]))
        /\ i' = i + 1
Spec == Init /\ [][Next]_i
=============================================================================
