--------------------------- MODULE TraceSdcAlgebra ---------------------------
(***************************************************************************)
(* Validation of results computed by the REAL pySDC sweepers / BaseTransfer *)
(* on the Z_P data type against SdcAlgebra: every case (instance + real    *)
(* outputs) is recomputed with the specification's operators, compared for *)
(* equality, and the algebraic properties (Picard identity, tau            *)
(* definition, coarse defect, fixed-point preservation) are evaluated on   *)
(* the REAL outputs.  One JSON verdict line per case.                      *)
(***************************************************************************)
EXTENDS SdcAlgebra, Json, IOUtils, TLCExt

Batch == JsonDeserialize(IOEnv.TRACE_FILE)
Cases == Batch.cases

VARIABLE i
V(cond, name) == IF cond THEN {} ELSE {name}

SweepVerdict(c) ==
    LET L == c.inst
        o == c.out
        def == SweepDefined(L, L.kind)
    IN  V(o.defined = def, "conf.defined")
   \cup V(o.integrate = Integrate(L, L.U), "conf.integrate")
   \cup V(L.kind = "rk" \/ o.res = ResidualNorms(L, L.u0, L.U, L.tau), "conf.residual")
   \cup V(L.kind = "rk" \/ o.uend = EndPoint(L, L.u0, L.U, L.tau), "conf.endpoint")
   \cup V(L.kind # "rk" \/ ~ (def /\ o.defined) \/ o.uend_after = EndPointRK(L, L.u0, o.sweep), "conf.endpoint_rk")
   \cup V(o.rel_ok, "conf.residual_rel")
   \cup (IF def /\ o.defined
         THEN   V(o.sweep = Sweep(L, L.kind, L.u0, L.U, L.tau), "conf.sweep")
           \cup V(PicardHolds(L, L.kind, L.u0, L.U, L.tau, o.sweep), "prop.picard")
           \cup V(o.f_fresh, "prop.f_matches_u")
           \cup V(o.u0_kept, "prop.u0_kept")
           \cup V((o.sweep = L.U) => (\A m \in 1 .. L.M : Defect(L, L.u0, L.U, L.tau)[m] = Zero(L.n)), "prop.fixed_point_zero_defect")
           \cup V((\A m \in 1 .. L.M : Defect(L, L.u0, L.U, L.tau)[m] = Zero(L.n)) => o.sweep = L.U, "prop.zero_defect_fixed_point")
         ELSE {})

TransferVerdict(c) ==
    LET L == c.inst
        G == L.G
        T == L.T
        o == c.out
        R == RestrictLv(L, G, T, L.u0, L.U, L.tau)
        def == SweepDefined(G, L.kind)
        GUn == IF def THEN Sweep(G, L.kind, R.u0, R.U, R.tau) ELSE R.U
        Rr == [u0 |-> o.restricted.u0, U |-> o.restricted.U, tau |-> o.restricted.tau, Uold |-> o.restricted.Uold]
        h1 == RowsSumToOne(T.Rc, G.M, L.M)
        DF == Defect(L, L.u0, L.U, L.tau)
        zeroF == \A m \in 1 .. L.M : DF[m] = Zero(L.n)
    IN  V(Rr.u0 = R.u0, "conf.restrict_u0")
   \cup V(Rr.U = R.U, "conf.restrict_nodes")
   \cup V(Rr.tau = R.tau, "conf.tau")
   \cup V(Rr.Uold = R.Uold, "conf.uold")
   \cup V(o.defined = def, "conf.defined")
   \cup V(o.fine_u0_kept, "prop.fine_u0_kept")
   \* properties on the REAL outputs
   \cup V(\A k \in 1 .. G.M : Rr.tau[k] =
            VAdd(VSub(VSum([m \in 1 .. L.M |-> VSc(T.Rc[k][m], MV(T.Rs, Integrate(L, L.U)[m]))], G.n), Integrate(G, Rr.U)[k]),
                 IF L.tau = <<>> THEN Zero(G.n) ELSE VSum([m \in 1 .. L.M |-> VSc(T.Rc[k][m], MV(T.Rs, L.tau[m]))], G.n)),
        "prop.tau_definition")
   \cup V(h1 => (\A k \in 1 .. G.M : Defect(G, Rr.u0, Rr.U, Rr.tau)[k] = VSum([m \in 1 .. L.M |-> VSc(T.Rc[k][m], MV(T.Rs, DF[m]))], G.n)),
        "prop.coarse_defect_is_restricted_fine_defect")
   \cup (IF def /\ o.defined
         THEN   V(o.coarse_swept = GUn, "conf.coarse_sweep")
           \cup V(o.prolonged = ProlongLv(L, G, T, L.U, GUn, R.Uold), "conf.prolong")
           \cup V((h1 /\ zeroF) => o.prolonged = L.U, "prop.down_up_preserves_fixed_point")
           \* prolong_f: the stored right-hand sides (implicit / explicit part) after the call
           \cup V(~ o.finter \/ (o.f_impl = ProlongFLv(L, G, T, L.U, GUn, R.Uold).fI /\ o.f_expl = ProlongFLv(L, G, T, L.U, GUn, R.Uold).fE),
                  "conf.prolong_f")
           \cup V((o.finter /\ h1 /\ zeroF) => (\A k \in 1 .. L.M : o.f_impl[k] = FI(L, L.U[k]) /\ o.f_expl[k] = FE(L, L.U[k], k)),
                  "prop.down_up_f_preserves_right_hand_sides")
         ELSE {})

\* ---- complete runs: every converged step holds THE fine collocation solution ------------------------
\* brute-force solution of the fine collocation problem (unique when it exists uniquely)
CollSolutions(L, u0) == {U \in [1 .. L.M -> [1 .. L.n -> Zp]] : \A m \in 1 .. L.M : Defect(L, u0, U, <<>>)[m] = Zero(L.n)}

RunVerdict(c) ==
    LET L == c.inst
        S == c.out.steps
        N == Len(S)
        conv(k) == S[k].res = 0 /\ S[k].niter < c.maxiter
        allconv == \A k \in 1 .. N : conv(k)
    IN  V(N = c.nsteps, "run.step_count")
   \cup V(N > 0 => S[1].u0 = c.u_init, "run.first_step_starts_from_u0")
   \cup V(c.out.caller_u0_unchanged, "run.caller_u0_unchanged")
   \cup V(\A k \in 1 .. N : conv(k) => (\A m \in 1 .. L.M : Defect(L, S[k].u0, S[k].U, <<>>)[m] = Zero(L.n)), "run.residual_zero_means_defect_zero")
   \cup V(\A k \in 1 .. N : S[k].res = ResidualNorms(L, S[k].u0, S[k].U, <<>>)[1], "run.reported_residual")
   \cup V(\A k \in 1 .. N : S[k].uend = EndPoint(L, S[k].u0, S[k].U, <<>>), "run.end_value")
   \cup V(allconv => \A k \in 1 .. N - 1 : S[k + 1].u0 = S[k].uend, "run.chain")
   \cup V(allconv => \A k \in 1 .. N : (Cardinality(CollSolutions(L, S[k].u0)) = 1 => S[k].U \in CollSolutions(L, S[k].u0)),
        "run.converged_is_collocation_solution")
   \cup V((allconv /\ N > 0) => c.out.ret = S[N].uend, "run.return_value")
   \cup V(allconv => (Len(c.out.logged) = N /\ \A k \in 1 .. N : c.out.logged[k][2] = S[k].uend), "run.logged_solutions")

\* ---- K multilevel iterations of one step from the spread initial guess (maxiter = K, residual tolerance never met) ----------
IterVerdict(c) ==
    LET lv == c.levels
        F == lv[1]
        spread == [m \in 1 .. F.M |-> c.u_init]
        def == MLDefined(lv, c.kind)
        S == c.out.steps
    IN BindIn(IF def THEN MLIterate(lv, c.transfers, c.kind, c.nsw, c.u_init, spread, c.K) ELSE spread, LAMBDA expU :
        V(Len(S) = 1, "iter.one_step")
   \cup V(~ def \/ Len(S) # 1 \/ S[1].niter = c.K, "iter.iteration_count")
   \cup V(~ def \/ Len(S) # 1 \/ S[1].U = expU, "iter.multilevel_iteration")
   \cup V(~ def \/ Len(S) # 1 \/ S[1].uend = EndPoint(F, c.u_init, expU, <<>>), "iter.end_value")
   \* the transcription is affine in the iterate with an iteration matrix that does not depend on the initial value
   \cup V(~ def \/ F.c # 0 \/ (\E l \in 1 .. Len(lv) : lv[l].c # 0)
          \/ MLAffine(lv, c.transfers, c.kind, c.nsw, c.u_init, spread, [m \in 1 .. F.M |-> c.probe]), "iter.affine"))

\* ---- three levels, restriction down the whole hierarchy REPEATED after a new initial value arrived on the finest level ------
\* (what happens to a step of a block whose predecessor sends a new end value between two iterations): every level must see
\* the restriction of the NEW initial value, and the coarse problems are those of the new data
Restrict2Verdict(c) ==
    LET lv == c.levels
        R1 == RestrictLv(lv[1], lv[2], c.transfers[1], c.u0b, c.U, <<>>)
        R2 == RestrictLv(lv[2], lv[3], c.transfers[2], R1.u0, R1.U, R1.tau)
        o == c.out
    IN  V(o.mid.u0 = R1.u0, "hist.restrict_again_u0_mid")
   \cup V(o.mid.U = R1.U /\ o.mid.tau = R1.tau, "hist.restrict_again_mid")
   \cup V(o.coarse.u0 = R2.u0, "hist.restrict_again_u0_coarse")
   \cup V(o.coarse.U = R2.U /\ o.coarse.tau = R2.tau, "hist.restrict_again_coarse")
   \cup V(\A k \in 1 .. lv[3].M : Defect(lv[3], o.coarse.u0, o.coarse.U, o.coarse.tau)[k]
                = VSum([m \in 1 .. lv[2].M |-> VSc(c.transfers[2].Rc[k][m], MV(c.transfers[2].Rs, Defect(lv[2], o.mid.u0, o.mid.U, o.mid.tau)[m]))], lv[3].n)
          \/ ~ RowsSumToOne(c.transfers[2].Rc, lv[3].M, lv[2].M), "prop.coarse_defect_is_restricted_defect_after_new_u0")

Init == i = 1
Next == /\ i <= Len(Cases)
        /\ LET c == Cases[i]
               v == IF c.mode = "sweep" THEN SweepVerdict(c) ELSE IF c.mode = "run" THEN RunVerdict(c)
                    ELSE IF c.mode = "iter" THEN IterVerdict(c) ELSE IF c.mode = "restrict2" THEN Restrict2Verdict(c) ELSE TransferVerdict(c)
           IN PrintT(ToJson([cid |-> c.id, viol |-> SetToSeq(v)]))
        /\ i' = i + 1
Spec == Init /\ [][Next]_i
=============================================================================
