------------------------------- MODULE HookSets -------------------------------
(***************************************************************************)
(* Which statistics a run records, as a function of the hook classes the   *)
(* user lists and of the hooks convergence controllers add themselves      *)
(* (C14: "every accepted step contributes exactly one record per recorded  *)
(* quantity ... every logging hook shipped").                              *)
(* Registration (Controller.__init__ / add_hook): DefaultHooks and the     *)
(* timing hook first, then the user's list in order, then whatever the     *)
(* convergence controllers add; a class is instantiated once -- a hook is  *)
(* skipped only if an instance of EXACTLY that class is registered         *)
(* (a registered sub-class does not stand in for its base class, and vice  *)
(* versa).  Every registered hook records its own quantities.              *)
(***************************************************************************)
EXTENDS Integers, Sequences, FiniteSets, TLC, Json

CONSTANTS MAXLEN

UserHooks == {"Sol", "StepSize", "Restarts", "Work", "K", "Err", "ErrPostIter"}
Ctrls == {"none", "errest", "adapt"}
VARIABLES user, ctrl
vars == <<user, ctrl>>

\* hooks added by the convergence controllers of a configuration (BasicRestarting is always there)
Added == CASE ctrl = "none"   -> <<"Restarts">>
           [] ctrl = "errest" -> <<"Err", "Restarts">>
           [] ctrl = "adapt"  -> <<"StepSize", "Err", "Restarts">>
HasEstimate == ctrl \in {"errest", "adapt"}

RECURSIVE Dedupe(_, _)
Dedupe(acc, s) == IF s = <<>> THEN acc
                  ELSE IF \E i \in 1 .. Len(acc) : acc[i] = Head(s) THEN Dedupe(acc, Tail(s))
                  ELSE Dedupe(Append(acc, Head(s)), Tail(s))
Registered == Dedupe(<<>>, <<"Default", "Timings">> \o user \o Added)

\* per-step quantities a hook records (one record per accepted step); the error-estimate hooks only when an estimate exists
StepTypes(h) ==
    CASE h = "Sol" -> {"u"} [] h = "StepSize" -> {"dt"} [] h = "Restarts" -> {"restart"} [] h = "Work" -> {"work_rhs"} [] h = "K" -> {"k"}
      [] h = "Err" -> IF HasEstimate THEN {"error_embedded_estimate"} ELSE {}
      [] h = "ErrPostIter" -> IF HasEstimate THEN {"error_embedded_estimate_post_iteration"} ELSE {}
      [] h = "Default" -> {"niter", "residual_post_step"}
      [] OTHER -> {}
Expected == UNION {StepTypes(Registered[i]) : i \in 1 .. Len(Registered)}

\* ---- properties of the registration rule --------------------------------------------------------------
OncePerClass == \A i, j \in 1 .. Len(Registered) : Registered[i] = Registered[j] => i = j
\* everything the user asked for and everything a controller needs is registered, whatever else is in the list
NothingDropped == \A h \in {user[i] : i \in 1 .. Len(user)} \cup {Added[i] : i \in 1 .. Len(Added)} : \E k \in 1 .. Len(Registered) : Registered[k] = h
\* in particular a sub-class listed first does not suppress its base class
BaseSurvivesSubclass == (HasEstimate /\ \E i \in 1 .. Len(user) : user[i] = "ErrPostIter") => "error_embedded_estimate" \in Expected
Export == PrintT(ToJson([hs |-> TRUE, user |-> user, ctrl |-> ctrl, registered |-> Registered, expected |-> Expected]))

Init == /\ user \in UNION {[1 .. n -> UserHooks] : n \in 0 .. MAXLEN}
        /\ ctrl \in Ctrls
Next == UNCHANGED vars
Spec == Init /\ [][Next]_vars
=============================================================================
