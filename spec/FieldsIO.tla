------------------------------- MODULE FieldsIO -------------------------------
(***************************************************************************)
(* Byte-level model of pySDC/helpers/fieldsIO.py (serial path):            *)
(*   FieldsIO.initialize / addField / fromFile / nFields / readField       *)
(* The file is a sequence of tagged bytes.  A header has H bytes, a record *)
(* (time + field) R bytes.  Every write proceeds ONE BYTE PER STEP and the *)
(* process may crash between any two byte steps; a crash leaves the prefix *)
(* written so far (sequential append, no reordering by the file system).   *)
(* The number of records is DERIVED from the file size, exactly like       *)
(* FieldsIO.nFields.                                                       *)
(*                                                                         *)
(* MODE selects where addField puts the new record:                        *)
(*   "eof"     at the end of the file (open(..., "ab"))                    *)
(*   "aligned" at offset H + nFields*R, dropping bytes of an incomplete    *)
(*             record first                                                *)
(* The configuration mirrors what the code under test does.                *)
(***************************************************************************)
EXTENDS Integers, Sequences, FiniteSets, TLC, Json

CONSTANTS H, R, MAXADD, MAXCRASH, MAXINIT, MODE, HIST, MAXHIST, NHANDLES

VARIABLES
    disk,     \* sequence of bytes <<kind, id, idx>>; kind "h" (header of generation id) or "r" (record id)
    exists,   \* the file exists
    obj,      \* per handler object: "none" | "fresh" (header set, not initialised) | "ready"; several handlers may be
              \* alive on the same file at the same time (a reader opened while a writer is alive, a re-opened appender ...)
    pend,     \* in-flight write: <<>> or [kind, id, next, total]
    acked,    \* sequence of record ids whose addField call returned
    nextid,   \* next fresh id (records and header generations)
    ncrash, ninit,
    allow,    \* FieldsIO.ALLOW_OVERWRITE
    lasterr,  \* outcome of the last API call: "ok" | "FileExistsError" | "badfile"
    hist      \* operation history (behaviour generation)

Handles == 1 .. NHANDLES
vars == <<disk, exists, obj, pend, acked, nextid, ncrash, ninit, allow, lasterr, hist>>

\* --- what a reader sees ---------------------------------------------------
HeaderComplete == Len(disk) >= H /\ \E g \in 0 .. nextid : \A i \in 1 .. H : disk[i] = <<"h", g, i>>
NFields == IF Len(disk) < H THEN 0 ELSE (Len(disk) - H) \div R
RecordBytes(i) == [k \in 1 .. R |-> disk[H + i * R + k]]            \* i = 0 .. NFields-1
Coherent(i) == \E id \in 0 .. nextid : \A k \in 1 .. R : RecordBytes(i)[k] = <<"r", id, k>>
RecId(i) == RecordBytes(i)[1][2]
Reported == [i \in 1 .. NFields |-> IF Coherent(i - 1) THEN RecId(i - 1) ELSE -1]


\* every logged operation carries what a reader would see just BEFORE it (pre-state)
Log(e) == IF HIST THEN Append(hist, e @@ [pre |-> Reported, hok |-> HeaderComplete]) ELSE hist


\* --- actions ----------------------------------------------------------------
Init ==
    /\ disk = <<>> /\ exists = FALSE /\ obj = [h \in Handles |-> "none"] /\ pend = <<>> /\ acked = <<>> /\ nextid = 1
    /\ ncrash = 0 /\ ninit = 0 /\ allow = FALSE /\ lasterr = "ok" /\ hist = <<>>

\* a new handler object with a header (Scalar(...).setHeader(...))
NewObject(h) ==
    /\ obj[h] = "none" /\ pend = <<>> /\ ninit < MAXINIT
    /\ \A g \in Handles : g < h => obj[g] # "none"      \* symmetry: use the lowest free handler
    /\ obj' = [obj EXCEPT ![h] = "fresh"] /\ lasterr' = "ok"
    /\ hist' = Log([op |-> "new", h |-> h])
    /\ UNCHANGED <<disk, exists, pend, acked, nextid, ncrash, ninit, allow>>

SetAllow(b) ==
    /\ pend = <<>> /\ allow # b /\ \E h \in Handles : obj[h] = "fresh"
    /\ allow' = b
    /\ hist' = Log([op |-> "allow", v |-> b])
    /\ UNCHANGED <<disk, exists, obj, pend, acked, nextid, ncrash, ninit, lasterr>>

\* FieldsIO.initialize(): refused on an existing file unless overwriting is allowed;
\* otherwise open(.., "w+b") truncates and the header is written byte by byte
Initialize(h) ==
    /\ obj[h] = "fresh" /\ pend = <<>> /\ ninit < MAXINIT
    /\ ninit' = ninit + 1
    /\ IF exists /\ ~ allow
       THEN /\ lasterr' = "FileExistsError"
            /\ hist' = Log([op |-> "init", h |-> h, ok |-> FALSE])
            /\ UNCHANGED <<disk, exists, obj, pend, acked, nextid, ncrash, allow>>
       ELSE /\ disk' = <<>> /\ exists' = TRUE
            /\ acked' = <<>>                         \* an allowed overwrite discards the old records
            /\ pend' = [kind |-> "h", id |-> nextid, next |-> 1, total |-> H, h |-> h]
            /\ nextid' = nextid + 1
            /\ lasterr' = "ok"
            /\ hist' = Log([op |-> "init", h |-> h, ok |-> TRUE])
            /\ UNCHANGED <<obj, ncrash, allow>>

\* FieldsIO.addField(): start of the write of one record
AddField(h) ==
    /\ obj[h] = "ready" /\ pend = <<>> /\ nextid <= MAXADD + MAXINIT
    /\ Cardinality({i \in 1 .. Len(disk) : disk[i][1] = "r" /\ disk[i][3] = 1}) < MAXADD
    /\ pend' = [kind |-> "r", id |-> nextid, next |-> 1, total |-> R, h |-> h]
    /\ nextid' = nextid + 1
    /\ disk' = IF MODE = "aligned" /\ Len(disk) >= H
               THEN SubSeq(disk, 1, H + NFields * R)     \* drop the bytes of an incomplete record
               ELSE disk
    /\ hist' = Log([op |-> "add", h |-> h, id |-> nextid])
    /\ UNCHANGED <<exists, obj, acked, ncrash, ninit, allow, lasterr>>

\* one byte reaches the file (always at its end)
WriteByte ==
    /\ pend # <<>> /\ pend.next <= pend.total
    /\ disk' = Append(disk, <<pend.kind, pend.id, pend.next>>)
    /\ pend' = [pend EXCEPT !.next = @ + 1]
    /\ UNCHANGED <<exists, obj, acked, nextid, ncrash, ninit, allow, lasterr, hist>>

\* the call returns
FinishWrite ==
    /\ pend # <<>> /\ pend.next > pend.total
    /\ IF pend.kind = "h" THEN obj' = [obj EXCEPT ![pend.h] = "ready"] /\ acked' = acked
                          ELSE obj' = obj /\ acked' = Append(acked, pend.id)
    /\ pend' = <<>>
    /\ hist' = Log([op |-> "done", kind |-> pend.kind, id |-> pend.id])
    /\ UNCHANGED <<disk, exists, nextid, ncrash, ninit, allow, lasterr>>

\* the process dies: the in-flight write stops after pend.next-1 bytes, the handler object is gone
Crash ==
    /\ ncrash < MAXCRASH
    /\ \E h \in Handles : obj[h] # "none"
    /\ ncrash' = ncrash + 1
    /\ obj' = [h \in Handles |-> "none"] /\ pend' = <<>>
    /\ hist' = Log([op |-> "crash", kind |-> IF pend = <<>> THEN "idle" ELSE pend.kind,
                   id |-> IF pend = <<>> THEN 0 ELSE pend.id, written |-> IF pend = <<>> THEN 0 ELSE pend.next - 1])
    /\ UNCHANGED <<disk, exists, acked, nextid, ninit, allow, lasterr>>

\* FieldsIO.fromFile(): needs a complete header
Reopen(h) ==
    /\ obj[h] = "none" /\ pend = <<>> /\ exists /\ lasterr # "badfile"
    /\ \A g \in Handles : g < h => obj[g] # "none"
    /\ IF HeaderComplete THEN obj' = [obj EXCEPT ![h] = "ready"] /\ lasterr' = "ok"
                         ELSE obj' = obj /\ lasterr' = "badfile"
    /\ hist' = Log([op |-> "reopen", h |-> h, ok |-> HeaderComplete])
    /\ UNCHANGED <<disk, exists, pend, acked, nextid, ncrash, ninit, allow>>

\* drop the handler without a crash (e.g. end of a script)
Close(h) ==
    /\ obj[h] = "ready" /\ pend = <<>>
    /\ obj' = [obj EXCEPT ![h] = "none"]
    /\ hist' = Log([op |-> "close", h |-> h])
    /\ UNCHANGED <<disk, exists, pend, acked, nextid, ncrash, ninit, allow, lasterr>>

Next == (\E h \in Handles : NewObject(h) \/ Initialize(h) \/ AddField(h) \/ Reopen(h) \/ Close(h))
        \/ WriteByte \/ FinishWrite \/ Crash
        \/ \E b \in BOOLEAN : SetAllow(b)

Spec == Init /\ [][Next]_vars

\* --- properties ------------------------------------------------------------
Quiescent == pend = <<>>

\* every record a reader is told about is one complete record of a single addField call
IncompleteNeverReported == (Quiescent /\ HeaderComplete) => \A i \in 1 .. NFields : Reported[i] # -1

\* every acknowledged record is reported, in order, at the index it was written at
CompletedRecordsIntact ==
    (Quiescent /\ HeaderComplete) =>
        /\ Len(acked) <= NFields
        /\ \A k \in 1 .. Len(acked) : \E i \in 1 .. NFields : Reported[i] = acked[k]
        /\ \A k1, k2 \in 1 .. Len(acked) : k1 < k2 =>
              \A i1, i2 \in 1 .. NFields : (Reported[i1] = acked[k1] /\ Reported[i2] = acked[k2]) => i1 < i2

\* an acknowledged record never moves to another index (action property)
IndexStable ==
    [][\A i \in 1 .. NFields : (HeaderComplete /\ i <= Len(Reported) /\ Reported[i] \in {acked[k] : k \in 1 .. Len(acked)}
            /\ ~ (ninit' > ninit))
          => (NFields' >= i /\ Reported'[i] = Reported[i])]_vars

\* an existing file is never overwritten unless overwriting is enabled
NoSilentOverwrite ==
    [][(exists /\ ~ allow /\ ninit' > ninit) => (disk' = disk /\ lasterr' = "FileExistsError")]_vars

\* header bytes are never touched by appends
HeaderStable == [][(HeaderComplete /\ ~ (ninit' > ninit)) => (HeaderComplete' /\ SubSeq(disk', 1, H) = SubSeq(disk, 1, H))]_vars

HistBound == Len(hist) <= MAXHIST

TypeOK == /\ \A h \in Handles : obj[h] \in {"none", "fresh", "ready"} /\ exists \in BOOLEAN /\ ncrash \in 0 .. MAXCRASH

\* behaviour export (GEN): printed at quiescent states reached after the last allowed operation
GenDone == pend = <<>> /\ (\A h \in Handles : obj[h] = "none") /\ ncrash = MAXCRASH
GenPrint == GenDone => PrintT(ToJson([gen |-> TRUE, hist |-> hist, reported |-> Reported, acked |-> acked,
                                       headerok |-> HeaderComplete, nfields |-> NFields]))
=============================================================================
