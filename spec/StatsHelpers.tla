----------------------------- MODULE StatsHelpers -----------------------------
(***************************************************************************)
(* pySDC.helpers.stats_helper on ARBITRARY statistics dictionaries (C14:   *)
(* "filtering returns exactly the entries matching the given keys,         *)
(* filtering out recomputed values leaves exactly the records of accepted  *)
(* steps, sorting is ascending in the chosen key").                        *)
(* A dictionary is a set of entries with pairwise different keys           *)
(*   [type, time, iter, nrest, process, value]   (time in ticks)           *)
(* a query gives a value or the wildcard -1 / "*" for every key field.     *)
(* TLC draws dictionaries and queries (simulation: RandomSubset) or        *)
(* enumerates all of them for a tiny domain, and prints the expected       *)
(* results; the harness materialises the dictionary with real keys (ticks  *)
(* mapped to floats on several scales) and calls the real helpers.         *)
(***************************************************************************)
EXTENDS Integers, Sequences, FiniteSets, TLC, Json, Randomization

CONSTANTS TYPES, TIMES, ITERS, NRESTS, PROCS, MAXE, RANDOM

Keys == [type : TYPES \cup {"_recomputed"}, time : TIMES, iter : ITERS, nrest : NRESTS, process : PROCS]
Entries == [type : TYPES \cup {"_recomputed"}, time : TIMES, iter : ITERS, nrest : NRESTS, process : PROCS, value : {0, 1}]
KeyOf(e) == [type |-> e.type, time |-> e.time, iter |-> e.iter, nrest |-> e.nrest, process |-> e.process]
IsDict(D) == \A a, b \in D : KeyOf(a) = KeyOf(b) => a = b
Queries == [type : TYPES \cup {"_recomputed", "*"}, time : TIMES \cup {-1}, iter : ITERS \cup {-1}, nrest : NRESTS \cup {-1},
            process : PROCS \cup {-1}, recomputed : {"none", "false"}, sortby : {"time", "iter", "process", "nrest"}]

VARIABLES D, q
vars == <<D, q>>

\* ---- the helpers ---------------------------------------------------------------------------------
Matches(e, Q) == /\ (Q.type = "*" \/ e.type = Q.type) /\ (Q.time = -1 \/ e.time = Q.time) /\ (Q.iter = -1 \/ e.iter = Q.iter)
                 /\ (Q.nrest = -1 \/ e.nrest = Q.nrest) /\ (Q.process = -1 \/ e.process = Q.process)
Plain(S, Q) == {e \in S : Matches(e, Q)}
\* superseded generations: at every time at which some entry of R has been restarted, of every type only the highest restart
\* count present at that time (within R) survives
MaxNrAt(R, t, T) == LET N == {e.nrest : e \in {x \in R : x.time = t /\ x.type = T}} IN CHOOSE m \in N : \A k \in N : k <= m
Latest(R) ==
    LET restarted == {e.time : e \in {x \in R : x.nrest > 0}}
    IN {e \in R : e.time \notin restarted \/ e.nrest = MaxNrAt(R, e.time, e.type)}
\* times whose latest `_recomputed` marker (taken from the WHOLE dictionary) says "this step was restarted"
RestartedTimes(S) == {e.time : e \in {x \in Latest(Plain(S, [type |-> "_recomputed", time |-> -1, iter |-> -1, nrest |-> -1, process |-> -1])) : x.value = 1}}
Filter(S, Q) ==
    IF Q.recomputed = "none" THEN Plain(S, Q)
    ELSE LET R == Latest(Plain(S, Q))
         IN IF Q.type = "_recomputed" THEN R ELSE {e \in R : e.time \notin RestartedTimes(S)}
Field(e, f) == CASE f = "time" -> e.time [] f = "iter" -> e.iter [] f = "process" -> e.process [] OTHER -> e.nrest
\* sort_stats: the multiset of (key item, value) pairs, ascending in the item
SortedItems(R, f) == {<<Field(e, f), e.value, KeyOf(e)>> : e \in R}
TypesOf(S) == {e.type : e \in S}

\* ---- properties of the helpers themselves ---------------------------------------------------------
FilterIsSubset == Filter(D, q) \subseteq D
\* filtering is idempotent and monotone in the query
Idempotent == Plain(Plain(D, q), q) = Plain(D, q)
\* without restarts nothing is removed by the recomputed filter
NoRestartsNoLoss == ((\A e \in D : e.nrest = 0) /\ (\A e \in D : e.type = "_recomputed" => e.value = 0)) =>
                        Filter(D, [q EXCEPT !.recomputed = "false"]) = Plain(D, q)
\* after filtering, at most one restart generation per (time, type) is left at restarted times
OneGeneration == LET R == Filter(D, [q EXCEPT !.recomputed = "false"])
                 IN \A a, b \in R : (a.time = b.time /\ a.type = b.type /\ (a.nrest > 0 \/ b.nrest > 0)) => a.nrest = b.nrest

Export == PrintT(ToJson([sh |-> TRUE, dict |-> D, query |-> q, filtered |-> Filter(D, q), sorted |-> SortedItems(Filter(D, q), q.sortby),
                         types |-> TypesOf(D)]))

\* exhaustive mode: every dictionary with at most MAXE entries x every query is an initial state;
\* simulation mode (RANDOM): the initial states of a simulation are computed once, so the random draw happens in Next
NoQuery == [type |-> "*", time |-> -1, iter |-> -1, nrest |-> -1, process |-> -1, recomputed |-> "none", sortby |-> "time"]
Init == IF RANDOM THEN D = {} /\ q = NoQuery
        ELSE /\ D \in {S \in SUBSET Entries : Cardinality(S) <= MAXE /\ IsDict(S)}
             /\ q \in Queries
Next == IF RANDOM
        THEN /\ \E S \in {RandomSubset(RandomElement(0 .. MAXE), Entries)} : IsDict(S) /\ D' = S
             \* queries whose fields are wildcards or taken from an entry that exists (so that most queries select something)
             /\ q' = RandomElement(IF D' = {} THEN Queries
                                   ELSE UNION {[type : {"*", e.type}, time : {-1, e.time}, iter : {-1, e.iter}, nrest : {-1, e.nrest},
                                                process : {-1, e.process}, recomputed : {"none", "false"},
                                                sortby : {"time", "iter", "process", "nrest"}] : e \in D'})
        ELSE UNCHANGED vars
Spec == Init /\ [][Next]_vars
=============================================================================
