------------------------------ MODULE Description ------------------------------
(***************************************************************************)
(* Reference interpretation of a pySDC description dictionary              *)
(*   Step.__generate_hierarchy / Step.__dict_to_list / Level / Sweeper /   *)
(*   controller_nonMPI.__init__ / Controller.add_convergence_controller    *)
(* One state per description.  A description is abstracted to              *)
(*   - the SHAPE of its level-dependent entries: 0 = scalar, k = list of   *)
(*     length k (the k-th list entry carries the tag k)                    *)
(*   - the number of sweeps pattern, the quadrature type, the predictor,   *)
(*     the number of steps                                                 *)
(*   - at most one FAULT (dropped essential key, deprecated key, unknown   *)
(*     name, illegal assignment ...)                                       *)
(*   - the user-supplied convergence controllers (with parameters)         *)
(* Interpret(d) says what a user may rely on: the number of levels, what   *)
(* every level gets, or which error is raised in which phase.              *)
(***************************************************************************)
EXTENDS Integers, Sequences, FiniteSets, SequencesExt, TLC, Json

CONSTANTS MAXLEN, FAULTS, FULLSHAPES

VARIABLES sh_dt, sh_nsw, sh_nodes, sh_nvars, nswpat, quad, quadc, pred, np, fault, ccs
\* quadc: "same" = scalar quad_type; otherwise quad_type is the list <<quad, quadc>> (second entry for all coarser levels)

vars == <<sh_dt, sh_nsw, sh_nodes, sh_nvars, nswpat, quad, quadc, pred, np, fault, ccs>>

Shapes == 0 .. MAXLEN

Max2(a, b) == IF a >= b THEN a ELSE b
LenOf(sh) == IF sh = 0 THEN 1 ELSE sh

\* Step.__dict_to_list: as many levels as the longest list; level l (0-based) gets entry min(l, k-1); scalars shared
NLevels == Max2(Max2(Max2(LenOf(sh_dt), LenOf(sh_nsw)), Max2(LenOf(sh_nodes), LenOf(sh_nvars))), IF quadc = "same" THEN 1 ELSE 2)
EntryTag(sh, l) == IF sh = 0 THEN 0 ELSE (IF l < sh - 1 THEN l ELSE sh - 1) + 1     \* 0 = "the scalar"

\* number of sweeps: pattern over list positions 1..k : "ones" | "last2" (last entry 2) | "first2"
NswAt(pos, k) == CASE nswpat = "ones" -> 1
                   [] nswpat = "last2" -> IF pos = k THEN 2 ELSE 1
                   [] nswpat = "first2" -> IF pos = 1 THEN 2 ELSE 1
NswOfLevel(l) == IF sh_nsw = 0 THEN (IF nswpat = "ones" THEN 1 ELSE 2) ELSE NswAt(EntryTag(sh_nsw, l), sh_nsw)

QuadOfLevel(l) == IF l = 0 \/ quadc = "same" THEN quad ELSE quadc
RightIsNode == \A l \in 0 .. NLevels - 1 : QuadOfLevel(l) \in {"RADAU-RIGHT", "LOBATTO"}

\* ---- errors, in the order the code meets them --------------------------------
\* result: <<phase, error class>> ; phase "construct" | "use" | "none"
Outcome ==
    LET NL == NLevels IN
    CASE fault = "predict_key"          -> <<"construct", "ControllerError">>
      [] fault = "dtype_u"              -> <<"construct", "ParameterError">>
      [] fault = "dtype_f"              -> <<"construct", "ParameterError">>
      [] fault \in {"drop_problem_class", "drop_sweeper_class", "drop_sweeper_params", "drop_level_params"}
                                        -> <<"construct", "ParameterError">>
      [] fault = "no_space_transfer" /\ NL > 1 -> <<"construct", "ParameterError">>
      [] fault = "drop_num_nodes"       -> <<"construct", "ParameterError">>
      [] fault = "bad_quad_type"        -> <<"construct", "CollocationError">>
      [] fault = "bad_node_type"        -> <<"construct", "CollocationError">>
      [] fault = "bad_QI"               -> <<"construct", "KeyError">>
      [] fault = "bad_problem_param"    -> <<"construct", "TypeError">>
      [] np > 1 /\ NL > 1 /\ ~ RightIsNode -> <<"construct", "ControllerError">>
      [] NL > 1 /\ NswOfLevel(NL - 1) > 1   -> <<"construct", "ControllerError">>
      [] fault = "set_status_attr"      -> <<"use", "TypeError">>
      [] fault = "set_level_param_attr" -> <<"use", "TypeError">>
      [] fault = "set_readonly_param"   -> <<"use", "ReadOnlyError">>
      [] fault = "bad_initial_guess"    -> <<"use", "ParameterError">>
      [] pred = "bogus" /\ NL > 1       -> <<"use", "ControllerError">>
      [] fault = "bad_residual_type"    -> <<"use", "ParameterError">>
      \* near misses of a valid name (a valid prefix or suffix is not a valid name) are unknown names as well
      [] fault \in {"residual_type_max_abs", "residual_type_fullrel", "residual_type_abs", "residual_type_full_abs_rel"}
                                        -> <<"use", "ParameterError">>
      [] fault \in {"initial_guess_Spread", "QI_lu"} -> <<IF fault = "QI_lu" THEN "construct" ELSE "use", IF fault = "QI_lu" THEN "KeyError" ELSE "ParameterError">>
      [] OTHER                          -> <<"none", "none">>

\* what every level gets (tags), when construction succeeds
Levels == [l \in 1 .. NLevels |-> [dt |-> EntryTag(sh_dt, l - 1), nsw |-> NswOfLevel(l - 1),
                                    nodes |-> EntryTag(sh_nodes, l - 1), nvars |-> EntryTag(sh_nvars, l - 1)]]

\* ---- convergence controllers ----------------------------------------------------
\* defaults always present: CheckConvergence(200), BasicRestarting(95), SpreadStepSizes(100)
\* user controllers: "A" (default order 10, depends on "D" which it adds with bar=1), "B" (default order -5),
\* "D" (default order 50, default bar=0).  ccs is a set of <<name, order override or 999, param override or -1>>
UserOrder(c, dflt) == IF \E u \in ccs : u[1] = c /\ u[2] # 999 THEN (CHOOSE u \in ccs : u[1] = c)[2] ELSE dflt
UserPar(c, dflt) == IF \E u \in ccs : u[1] = c /\ u[3] # -1 THEN (CHOOSE u \in ccs : u[1] = c)[3] ELSE dflt
Has(c) == \E u \in ccs : u[1] = c
Controllers ==
    LET base == {<<"CheckConvergence", 200, -1>>, <<"BasicRestartingNonMPI", 95, -1>>, <<"SpreadStepSizesBlockwiseNonMPI", 100, -1>>}
        a == IF Has("A") THEN {<<"A", UserOrder("A", 10), UserPar("A", 0)>>} ELSE {}
        b == IF Has("B") THEN {<<"B", UserOrder("B", -5), UserPar("B", 0)>>} ELSE {}
        \* D exists if the user gave it or A pulled it in; user parameters override the ones A passes (bar=1) and the default (0)
        dd == IF Has("D") THEN {<<"D", UserOrder("D", 50), UserPar("D", IF Has("A") THEN 1 ELSE 0)>>}
              ELSE IF Has("A") THEN {<<"D", 50, 1>>} ELSE {}
        \* E (default order 70) and its SUB-CLASS E2 (default order 75): a controller is instantiated once per CLASS -- an instance of
        \* the sub-class does not stand in for the base class (nor the other way round), whatever the order of the requests
        e  == IF Has("E") THEN {<<"E", UserOrder("E", 70), UserPar("E", 0)>>} ELSE {}
        e2 == IF Has("E2") THEN {<<"E2", UserOrder("E2", 75), UserPar("E2", 0)>>} ELSE {}
    IN base \cup a \cup b \cup dd \cup e \cup e2
ControllerList == SortSeq(SetToSeq(Controllers), LAMBDA x, y : x[2] < y[2])
DistinctOrders == \A x, y \in Controllers : x # y => x[2] # y[2]

\* ---- properties of the interpretation itself -------------------------------------
WellDefined == /\ NLevels \in 1 .. MAXLEN
               /\ Outcome[1] \in {"construct", "use", "none"}
LongestList == NLevels = Max2(IF quadc = "same" THEN 1 ELSE 2, Max2(Max2(sh_dt, sh_nsw), Max2(sh_nodes, sh_nvars)))
LastRepeats == \A l \in 1 .. NLevels : sh_dt > 0 /\ l > sh_dt => Levels[l].dt = sh_dt
OncePerClass == Cardinality({c[1] : c \in Controllers}) = Cardinality(Controllers)
Ascending == \A i \in 1 .. Len(ControllerList) - 1 : ControllerList[i][2] < ControllerList[i + 1][2]

Export == PrintT(ToJson([descr |-> TRUE, sh_dt |-> sh_dt, sh_nsw |-> sh_nsw, sh_nodes |-> sh_nodes, sh_nvars |-> sh_nvars,
                         nswpat |-> nswpat, quad |-> quad, quadc |-> quadc, pred |-> pred, np |-> np, fault |-> fault, ccs |-> ccs,
                         nlevels |-> NLevels, outcome |-> Outcome, levels |-> Levels, controllers |-> ControllerList]))

CcChoices == {{}, {<<"A", 999, -1>>}, {<<"B", 999, -1>>}, {<<"A", 999, -1>>, <<"B", 999, 7>>},
              {<<"A", 30, 5>>, <<"D", 999, 2>>}, {<<"D", 999, -1>>}, {<<"D", 60, 3>>, <<"B", -20, -1>>},
              {<<"A", 999, -1>>, <<"D", 40, -1>>},
              {<<"E2", 999, -1>>, <<"E", 999, 4>>}, {<<"E2", 999, 6>>}, {<<"E", 65, -1>>}, {<<"E2", 20, 1>>, <<"E", 999, -1>>, <<"B", 999, -1>>}}

Init ==
    /\ sh_dt \in Shapes /\ sh_nsw \in Shapes /\ sh_nodes \in Shapes /\ sh_nvars \in Shapes
    /\ nswpat \in {"ones", "last2", "first2"}
    /\ quad \in {"RADAU-RIGHT", "GAUSS", "LOBATTO", "RADAU-LEFT"}
    /\ quadc \in {"same", "RADAU-RIGHT", "GAUSS", "LOBATTO", "RADAU-LEFT"}
    /\ (quadc # "same" => (fault = "none" /\ ccs = {} /\ nswpat = "ones" /\ pred \in {"none", "pfasst_burnin"}
                           /\ sh_dt = 0 /\ sh_nsw = 0 /\ sh_nodes = 0 /\ sh_nvars \in {2, 3}))
    /\ pred \in {"none", "fine_only", "pfasst_burnin", "bogus"}
    /\ np \in {1, 2}
    /\ fault \in FAULTS \cup {"none"}
    /\ ccs \in CcChoices
    \* bounds of the enumeration: all shapes only for fault-free descriptions with default controllers
    /\ (fault # "none" \/ ccs # {}) => (<<sh_dt, sh_nsw, sh_nodes, sh_nvars>> \in {<<0, 0, 0, 0>>, <<2, 2, 2, 2>>, <<0, 0, 0, 3>>}
                                        /\ nswpat = "ones" /\ quad = "RADAU-RIGHT" /\ pred \in {"none", "pfasst_burnin"})
    /\ (fault = "none" /\ ccs = {}) => (FULLSHAPES \/ (sh_dt = sh_nodes /\ sh_nsw \in {0, sh_nvars}))
    /\ (ccs # {} => fault = "none")
    /\ (quad \in {"LOBATTO", "RADAU-LEFT"} => (nswpat = "ones" /\ pred = "none"))
Next == UNCHANGED vars
Spec == Init /\ [][Next]_vars
=============================================================================
