----------------------------- MODULE NodeParCalls -----------------------------
(***************************************************************************)
(* Which collectives one rank of a node-parallel sweeper / of              *)
(* base_transfer_MPI issues for one operation (transcribed from            *)
(* generic_implicit_MPI.py, imex_1st_order_MPI.py, BaseTransferMPI.py).    *)
(* A call is <<kind, root>> ; root = -1 for unrooted collectives.          *)
(* m = number of ranks (= collocation nodes); r = calling rank;            *)
(* hastau = this rank holds a tau correction.                              *)
(***************************************************************************)
EXTENDS Integers, Sequences

RedAll(m) == [i \in 1 .. m |-> <<"Reduce", i - 1>>]
Twice(s) == [i \in 1 .. 2 * Len(s) |-> s[(i + 1) \div 2]]

CallsOf(op, r, m, hastau) ==
    CASE op = "predict"      -> <<>>
      [] op = "integrate"    -> RedAll(m)
      [] op = "update"       -> RedAll(m)                                   \* integrate(), then a local solve
      [] op = "res_full"     -> RedAll(m) \o << <<"allreduce", -1>> >>      \* integrate(), max over the nodes
      [] op = "res_last"     -> << <<"Reduce", m - 1>>, <<"bcast", m - 1>> >>  \* integrate(last_only), norm from the last rank
      [] op = "end_copy"     -> << <<"Bcast", m - 1>> >>                    \* right end is a node: value of the last rank
      [] op = "end_coll"     -> << <<"Allreduce", -1>> >>
      [] op = "end_coll_tau" -> << <<"Allreduce", -1>> >> \o (IF hastau THEN << <<"Bcast", m - 1>> >> ELSE <<>>)
      \* restrict: nodes of u ; coarse integrate ; fine integrate ; nodes of the integral (; nodes of the fine tau)
      [] op = "restrict"     -> RedAll(m) \o RedAll(m) \o RedAll(m) \o RedAll(m)
      [] op = "restrict_tau" -> RedAll(m) \o RedAll(m) \o RedAll(m) \o RedAll(m) \o (IF hastau THEN RedAll(m) ELSE <<>>)
      [] op = "prolong"      -> RedAll(m)
      [] op = "prolong_f"    -> Twice(RedAll(m))
      [] OTHER               -> <<>>

Updates(op) == op \in {"update"}     \* operations after which the rank's node value is a new generation

\* completion rule of a collective: may rank r (communicator rank) leave, given the set of ranks that have arrived?
MayLeave(kind, root, r, arrived, m) ==
    CASE kind \in {"Reduce", "reduce", "gather", "Gather"} -> (r # root) \/ arrived = 0 .. m - 1
      [] kind \in {"Bcast", "bcast"}                       -> (r = root) \/ root \in arrived
      [] OTHER                                             -> arrived = 0 .. m - 1
=============================================================================
