---------------------------- MODULE ValueSemantics ----------------------------
(***************************************************************************)
(* Heap / alias model of pySDC's numpy-based solution data types           *)
(*   mesh, imex_mesh, comp2_mesh, MeshDAE (MultiComponentMesh)             *)
(* The specification IS the contract the property states:                  *)
(*  - every operation except explicit item assignment allocates a fresh    *)
(*    buffer for its result and writes no existing buffer                  *)
(*  - results keep the data type                                           *)
(*  - copy construction yields independent storage                         *)
(*  - component access yields a writable VIEW of the parent's buffer       *)
(*  - abs() is the maximum norm                                            *)
(* A program is a sequence of statements over the names a, b, c.  TLC      *)
(* enumerates programs; after every statement the harness compares, for    *)
(* the real classes, the values seen through every name, the result types, *)
(* and which names share memory.                                           *)
(***************************************************************************)
EXTENDS Integers, Sequences, FiniteSets, TLC, Json

CONSTANTS N,        \* length of a plain vector (a multi-component object has 2*N entries)
          MAXLEN,   \* program length
          OPS,      \* enabled statement kinds
          HASPAR    \* TRUE: the two-part object carries PARAMETER arrays besides its values (particles: charge q and mass m).
                    \* Copy construction copies them; arithmetic hands the first operand's arrays on to the result (that is
                    \* what the class does -- sharing, not modification); explicit item assignment writes them in place

Names == {"a", "b", "c"}

VARIABLES env,    \* name -> object id (0 = unbound)
          objs,   \* object id -> [ty, buf, idx, par]  (par = buffer with the parameter arrays, 0 = none)
                  \* ty, buf, idx:   ty in {"mesh", "mc"}; idx = the buffer positions the object shows, in order
                  \* (a contiguous window for ordinary objects, every second position for strided views)
          bufs,   \* buffer id -> sequence of integers
          nobj, nbuf,
          prog,   \* statements executed so far
          obs,    \* observation after every statement (what the harness compares)
          lastabs \* result of the last abs()

vars == <<env, objs, bufs, nobj, nbuf, prog, obs, lastabs>>

Window(o) == [i \in 1 .. Len(objs[o].idx) |-> bufs[objs[o].buf][objs[o].idx[i]]]
Positions(ob, o) == {ob[o].idx[i] : i \in 1 .. Len(ob[o].idx)}
Bound(x) == env[x] # 0
Ty(x) == objs[env[x]].ty
Val(x) == Window(env[x])
LenOf(x) == Len(objs[env[x]].idx)
Overlap(o1, o2) == objs[o1].buf = objs[o2].buf /\ Positions(objs, o1) \cap Positions(objs, o2) # {}

Abs(v) == IF v < 0 THEN -v ELSE v
MaxAbs(s) == CHOOSE m \in {Abs(s[i]) : i \in 1 .. Len(s)} : \A i \in 1 .. Len(s) : Abs(s[i]) <= m

\* what the harness can observe
Observe(e, ob, bf) ==
    [x \in Names |->
        IF e[x] = 0 THEN [bound |-> FALSE, ty |-> "-", val |-> <<>>, shares |-> {}, par |-> <<>>, pshares |-> {}]
        ELSE [bound |-> TRUE, ty |-> ob[e[x]].ty,
              val |-> [i \in 1 .. Len(ob[e[x]].idx) |-> bf[ob[e[x]].buf][ob[e[x]].idx[i]]],
              shares |-> {y \in Names : e[y] # 0 /\ ob[e[x]].buf = ob[e[y]].buf
                                        /\ Positions(ob, e[x]) \cap Positions(ob, e[y]) # {}},
              par |-> IF ob[e[x]].par = 0 THEN <<>> ELSE bf[ob[e[x]].par],
              pshares |-> {y \in Names : e[y] # 0 /\ ob[e[x]].par # 0 /\ ob[e[y]].par = ob[e[x]].par}]]

\* allocate a fresh object with a fresh buffer holding `vals`, bind it to x
\* pr: 0 = no parameter arrays; -k = a fresh copy of buffer k; k > 0 = share buffer k
FreshP(x, ty, vals, stmt, absval, pr) ==
    /\ nobj' = nobj + 1 /\ nbuf' = nbuf + (IF pr < 0 THEN 2 ELSE 1)
    /\ objs' = objs @@ (nobj + 1 :> [ty |-> ty, buf |-> nbuf + 1, idx |-> [i \in 1 .. Len(vals) |-> i],
                                       par |-> IF pr < 0 THEN nbuf + 2 ELSE pr])
    /\ bufs' = IF pr < 0 THEN bufs @@ (nbuf + 1 :> vals) @@ (nbuf + 2 :> bufs[-pr]) ELSE bufs @@ (nbuf + 1 :> vals)
    /\ env' = [env EXCEPT ![x] = nobj + 1]
    /\ prog' = Append(prog, stmt)
    /\ lastabs' = absval
    /\ obs' = Append(obs, Observe(env', objs', bufs'))
ParOf(y) == objs[env[y]].par
Fresh(x, ty, vals, stmt, absval) == FreshP(x, ty, vals, stmt, absval, 0)

Init ==
    /\ nobj = 2 /\ nbuf = IF HASPAR THEN 3 ELSE 2
    /\ objs = (1 :> [ty |-> "mesh", buf |-> 1, idx |-> [i \in 1 .. N |-> i], par |-> 0])
               @@ (2 :> [ty |-> "mc", buf |-> 2, idx |-> [i \in 1 .. 2 * N |-> i], par |-> IF HASPAR THEN 3 ELSE 0])
    /\ bufs = (1 :> [i \in 1 .. N |-> i]) @@ (2 :> [i \in 1 .. 2 * N |-> 10 * i])
              @@ (IF HASPAR THEN (3 :> [i \in 1 .. 2 * N |-> 1]) ELSE <<>>)
    /\ env = [x \in Names |-> IF x = "a" THEN 1 ELSE IF x = "b" THEN 2 ELSE 0]
    /\ prog = <<>> /\ lastabs = 0
    /\ obs = <<Observe(env, objs, bufs)>>

More == Len(prog) < MAXLEN

\* x = type(y)(y)
Copy(x, y) == "copy" \in OPS /\ More /\ Bound(y) /\ FreshP(x, Ty(y), Val(y), <<"copy", x, y>>, lastabs, -ParOf(y))
\* x = OtherClass(y): copy construction ACROSS classes of the same shape (a plain mesh from a mesh sub-class and back, one
\* two-component class from another): the result has the other class and, like every copy, storage of its own
Twin(ty) == CASE ty = "mesh" -> "mesh2" [] ty = "mesh2" -> "mesh" [] ty = "mc" -> "mc2" [] OTHER -> "mc"
IsMc(ty) == ty \in {"mc", "mc2"}
CopyTo(x, y) == "copyto" \in OPS /\ More /\ Bound(y) /\ Fresh(x, Twin(Ty(y)), Val(y), <<"copyto", x, y>>, lastabs)
\* x = y
Alias(x, y) == /\ "alias" \in OPS /\ More /\ Bound(y) /\ x # y
               /\ env' = [env EXCEPT ![x] = env[y]]
               /\ prog' = Append(prog, <<"alias", x, y>>)
               /\ obs' = Append(obs, Observe(env', objs, bufs))
               /\ UNCHANGED <<objs, bufs, nobj, nbuf, lastabs>>
\* x = y + z, x = y - z   (same type and size)
Bin(x, y, z, op) == /\ "bin" \in OPS /\ More /\ Bound(y) /\ Bound(z) /\ Ty(y) = Ty(z) /\ LenOf(y) = LenOf(z)
                    /\ FreshP(x, Ty(y), [i \in 1 .. LenOf(y) |-> IF op = "add" THEN Val(y)[i] + Val(z)[i] ELSE Val(y)[i] - Val(z)[i]],
                              <<op, x, y, z>>, lastabs, ParOf(y))
\* x = 2 * y ; x = y * 2
Scale(x, y, side) == "scale" \in OPS /\ More /\ Bound(y)
                     /\ FreshP(x, Ty(y), [i \in 1 .. LenOf(y) |-> 2 * Val(y)[i]], <<"scale", x, y, side>>, lastabs, ParOf(y))
\* x += y : augmented assignment REBINDS x to a fresh object; everything that referred to the old object is untouched
Aug(x, y) == /\ "aug" \in OPS /\ More /\ Bound(x) /\ Bound(y) /\ Ty(x) = Ty(y) /\ LenOf(x) = LenOf(y)
             /\ FreshP(x, Ty(x), [i \in 1 .. LenOf(x) |-> Val(x)[i] + Val(y)[i]], <<"aug", x, y>>, lastabs, ParOf(x))
\* x *= 2 (scalar operand): REBINDS x to a fresh object as well -- aliases and component views of the old object are untouched
AugScalar(x) == /\ "augscalar" \in OPS /\ More /\ Bound(x)
                /\ Fresh(x, Ty(x), [i \in 1 .. LenOf(x) |-> 2 * Val(x)[i]], <<"augscalar", x>>, lastabs)
\* numpy function applied: x = np.negative(y)
Ufunc(x, y) == "ufunc" \in OPS /\ More /\ Bound(y)
               /\ Fresh(x, Ty(y), [i \in 1 .. LenOf(y) |-> -Val(y)[i]], <<"ufunc", x, y>>, lastabs)
\* np.add(y, z, out=y): the `out` argument is dropped, y is not written
OutArg(x, y, z) == /\ "out" \in OPS /\ More /\ Bound(y) /\ Bound(z) /\ Ty(y) = Ty(z) /\ LenOf(y) = LenOf(z)
                   /\ Fresh(x, Ty(y), [i \in 1 .. LenOf(y) |-> Val(y)[i] + Val(z)[i]], <<"out", x, y, z>>, lastabs)
\* x[:] = y : explicit item assignment writes x's window IN PLACE (visible through aliases and views)
SetAll(x, y) == /\ "setall" \in OPS /\ More /\ Bound(x) /\ Bound(y) /\ Ty(x) = Ty(y) /\ LenOf(x) = LenOf(y)
                /\ LET o == objs[env[x]] v == Val(y) IN
                   bufs' = [bufs EXCEPT ![o.buf] = [i \in 1 .. Len(@) |->
                                IF \E k \in 1 .. Len(o.idx) : o.idx[k] = i THEN v[CHOOSE k \in 1 .. Len(o.idx) : o.idx[k] = i] ELSE @[i]]]
                /\ prog' = Append(prog, <<"setall", x, y>>)
                /\ obs' = Append(obs, Observe(env, objs, bufs'))
                /\ UNCHANGED <<env, objs, nobj, nbuf, lastabs>>
\* x[0] = 7
SetItem(x) == /\ "setitem" \in OPS /\ More /\ Bound(x)
              /\ LET o == objs[env[x]] IN bufs' = [bufs EXCEPT ![o.buf][o.idx[1]] = 7]
              /\ prog' = Append(prog, <<"setitem", x>>)
              /\ obs' = Append(obs, Observe(env, objs, bufs'))
              /\ UNCHANGED <<env, objs, nobj, nbuf, lastabs>>
\* x.q[0] = 7 : explicit item assignment into the parameter arrays -- in place, seen by everything that shares them
SetPar(x) == /\ "setpar" \in OPS /\ More /\ Bound(x) /\ ParOf(x) # 0
             /\ bufs' = [bufs EXCEPT ![ParOf(x)][1] = 7]
             /\ prog' = Append(prog, <<"setpar", x>>)
             /\ obs' = Append(obs, Observe(env, objs, bufs'))
             /\ UNCHANGED <<env, objs, nobj, nbuf, lastabs>>
\* x = y.<component k> : a mesh VIEW of the parent's buffer
Comp(x, y, k) == /\ "comp" \in OPS /\ More /\ Bound(y) /\ IsMc(Ty(y)) /\ x # y
                 /\ nobj' = nobj + 1
                 /\ LET h == Len(objs[env[y]].idx) \div 2 IN
                    objs' = objs @@ (nobj + 1 :> [ty |-> "mesh", buf |-> objs[env[y]].buf, idx |-> SubSeq(objs[env[y]].idx, k * h + 1, (k + 1) * h), par |-> 0])
                 /\ env' = [env EXCEPT ![x] = nobj + 1]
                 /\ prog' = Append(prog, <<"comp", x, y, k>>)
                 /\ obs' = Append(obs, Observe(env', objs', bufs))
                 /\ UNCHANGED <<bufs, nbuf, lastabs>>
\* x = y[::2] (mesh) / y[:, ::2] (multi-component): a NON-CONTIGUOUS view of every second entry (of each component); it has the
\* type of y, shares y's buffer, and its components are views again
EverySecond(s) == [i \in 1 .. (Len(s) + 1) \div 2 |-> s[2 * i - 1]]
Stride(x, y) == /\ "stride" \in OPS /\ More /\ Bound(y) /\ x # y
                /\ LET o == objs[env[y]]
                       h == Len(o.idx) \div 2
                       ni == IF IsMc(o.ty) THEN EverySecond(SubSeq(o.idx, 1, h)) \o EverySecond(SubSeq(o.idx, h + 1, 2 * h)) ELSE EverySecond(o.idx)
                   IN /\ (IF IsMc(o.ty) THEN h >= 2 ELSE Len(o.idx) >= 2)
                      /\ objs' = objs @@ (nobj + 1 :> [ty |-> o.ty, buf |-> o.buf, idx |-> ni, par |-> 0])
                /\ nobj' = nobj + 1
                /\ env' = [env EXCEPT ![x] = nobj + 1]
                /\ prog' = Append(prog, <<"stride", x, y>>)
                /\ obs' = Append(obs, Observe(env', objs', bufs))
                /\ UNCHANGED <<bufs, nbuf, lastabs>>
\* abs(x)
AbsOf(x) == /\ "abs" \in OPS /\ More /\ Bound(x)
            /\ lastabs' = MaxAbs(Val(x))
            /\ prog' = Append(prog, <<"abs", x, MaxAbs(Val(x))>>)
            /\ obs' = Append(obs, Observe(env, objs, bufs))
            /\ UNCHANGED <<env, objs, bufs, nobj, nbuf>>

Next ==
    \E x, y, z \in Names :
        \/ Copy(x, y) \/ CopyTo(x, y) \/ Alias(x, y) \/ Bin(x, y, z, "add") \/ Bin(x, y, z, "sub") \/ Scale(x, y, "l") \/ Scale(x, y, "r")
        \/ Aug(x, y) \/ AugScalar(x) \/ SetPar(x) \/ Ufunc(x, y) \/ OutArg(x, y, z) \/ SetAll(x, y) \/ SetItem(x) \/ Comp(x, y, 0) \/ Comp(x, y, 1) \/ Stride(x, y) \/ AbsOf(x)

Spec == Init /\ [][Next]_vars

\* ---- the contract as properties of the model -------------------------------------------------
\* only explicit item assignment changes the content of an existing buffer
NoOperandMutation ==
    [][(Len(prog') > Len(prog) /\ prog'[Len(prog')][1] \notin {"setall", "setitem", "setpar"}) =>
            \A b \in 1 .. nbuf : bufs'[b] = bufs[b]]_vars
\* a statement never changes what an unrelated name sees, unless memory is shared with the assigned window
NoSpookyAction ==
    [][\A x \in Names : (Len(prog') > Len(prog) /\ Bound(x) /\ env'[x] = env[x]
                          /\ prog'[Len(prog')][1] \in {"setall", "setitem"}
                          /\ ~ Overlap(env[x], env[prog'[Len(prog')][2]]))
                         => Window(env[x]) = [i \in 1 .. LenOf(x) |-> bufs'[objs[env[x]].buf][objs[env[x]].idx[i]]]]_vars
\* a copy never shares memory with its source
CopyIndependent ==
    [][(Len(prog') > Len(prog) /\ prog'[Len(prog')][1] \in {"copy", "copyto"}) =>
            LET x == prog'[Len(prog')][2] y == prog'[Len(prog')][3] IN
            x = y \/ (~ (objs'[env'[x]].buf = objs'[env'[y]].buf) /\ (ParOf(y) = 0 \/ objs'[env'[x]].par # objs'[env'[y]].par))]_vars
\* component views share the parent's buffer
ViewShares == \A x, y \in Names : (Bound(x) /\ Bound(y) /\ Overlap(env[x], env[y])) => objs[env[x]].buf = objs[env[y]].buf
TypeOK == \A x \in Names : Bound(x) => Ty(x) \in {"mesh", "mc", "mesh2", "mc2"} /\ LenOf(x) \in 1 .. 2 * N

Export == (Len(prog) = MAXLEN) => PrintT(ToJson([vs |-> TRUE, haspar |-> HASPAR, prog |-> prog, obs |-> obs]))
=============================================================================
