-------------------------------- MODULE SimMPI --------------------------------
(***************************************************************************)
(* Message layer used by pySDC's MPI code paths: non-blocking point-to-    *)
(* point operations with MPI matching rules.                               *)
(*   PostSend / PostRecv : a rank posts an operation (gets a request)      *)
(*   Match               : the environment pairs the OLDEST posted send    *)
(*                         with a posted receive of equal (comm, source,   *)
(*                         destination, tag) -- non-overtaking -- and      *)
(*                         completes both (synchronous-mode completion)    *)
(* The module is used in two ways: PfasstMPI.tla instantiates it for the   *)
(* exhaustive exploration of interleavings; TraceSimMPI.tla validates the  *)
(* event logs of the simulated MPI under the real controller_MPI.          *)
(***************************************************************************)
EXTENDS Integers, Sequences, FiniteSets

\* a posted operation: [id, comm, src, dst, tag, ord]   (ord = posting order, for non-overtaking)
SameEnvelope(s, r) == s.comm = r.comm /\ s.src = r.src /\ s.dst = r.dst /\ s.tag = r.tag

\* the send a receive must be matched with: the oldest posted send with the same envelope
OldestMatching(sends, r) ==
    LET C == {s \in sends : SameEnvelope(s, r)}
    IN IF C = {} THEN {} ELSE {CHOOSE s \in C : \A t \in C : s.ord <= t.ord}

CanMatch(sends, recvs) == \E r \in recvs : OldestMatching(sends, r) # {}

\* legality of an observed match
MatchLegal(sends, recvs, sid, rid) ==
    /\ \E s \in sends : s.id = sid
    /\ \E r \in recvs : r.id = rid
    /\ LET s == CHOOSE x \in sends : x.id = sid
           r == CHOOSE x \in recvs : x.id = rid
       IN /\ SameEnvelope(s, r)
          /\ s \in OldestMatching(sends, r)
          \* the receive is the oldest posted one for this envelope as well
          /\ \A q \in recvs : SameEnvelope(s, q) => r.ord <= q.ord
=============================================================================
