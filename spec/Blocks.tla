-------------------------------- MODULE Blocks --------------------------------
(***************************************************************************)
(* Transcription of pySDC/helpers/blocks.py (BlockDecomposition):          *)
(* both factorisation algorithms ("Hybrid", "ChatGPT") and localBounds.    *)
(* One state per case (nProcs, gridSizes, algo); the invariant says that   *)
(* the blocks form a partition of the grid: the number of blocks equals    *)
(* nProcs (ranks <-> blocks bijective by the C-order reshape) and in every *)
(* dimension the local index ranges tile 0 .. n-1 without gap or overlap.  *)
(* With EXPORT = TRUE the computed table is printed as JSON so that the    *)
(* harness can compare it with the real class for every case.              *)
(***************************************************************************)
EXTENDS Integers, Sequences, FiniteSets, SequencesExt, TLC, Json

CONSTANTS MINPROCS, MAXPROCS, SIZES, DIMS, EXPORT

VARIABLES nProcs, grid, algo

vars == <<nProcs, grid, algo>>

Dim == Len(grid)

RECURSIVE Prod(_)
Prod(s) == IF s = <<>> THEN 1 ELSE Head(s) * Prod(Tail(s))

ISqrt(n) == CHOOSE k \in 0 .. n : k * k <= n /\ (k + 1) * (k + 1) > n

Sorted(s) == SortSeq(s, <)

\* ---- algo == "ChatGPT" ------------------------------------------------------
RECURSIVE DivOut(_, _, _)
\* while rest % i == 0: nb[0] *= i; rest //= i; nb.sort()
DivOut(nb, rest, i) ==
    IF rest % i = 0 THEN DivOut(Sorted([nb EXCEPT ![1] = @ * i]), rest \div i, i) ELSE <<nb, rest>>

RECURSIVE GptLoop(_, _, _, _)
GptLoop(nb, rest, i, last) ==
    IF i > last THEN <<nb, rest>>
    ELSE LET r == DivOut(nb, rest, i) IN GptLoop(r[1], r[2], i + 1, last)

ChatGPT(np, dim) ==
    LET r  == GptLoop([d \in 1 .. dim |-> 1], np, 2, ISqrt(np))
        nb == IF r[2] > 1 THEN [r[1] EXCEPT ![1] = @ * r[2]] ELSE r[1]
    IN Sorted(nb)

\* ---- algo == "Hybrid" -------------------------------------------------------
Facs(dim) == CASE dim = 1 -> <<1>> [] dim = 2 -> <<2, 1>> [] dim = 3 -> <<2, 3, 1>>

RECURSIVE CountFac(_, _, _)
\* while rest % f == 0: e += 1; rest //= f        (f > 1)
CountFac(rest, f, e) == IF rest % f = 0 THEN CountFac(rest \div f, f, e + 1) ELSE <<rest, e>>

RECURSIVE HybExps(_, _, _, _)
HybExps(rest, exps, n, dim) ==
    IF n > dim - 1 THEN <<rest, exps>>
    ELSE LET r == CountFac(rest, Facs(dim)[n], 0) IN HybExps(r[1], [exps EXCEPT ![n] = r[2]], n + 1, dim)

\* index of the dimension with the largest (ceil) local size, last one on ties (>= in the code)
DMax(nb, g) ==
    LET loc(d) == (g[d] + nb[d] - 1) \div nb[d]
    IN CHOOSE d \in 1 .. Len(g) : (\A e \in 1 .. Len(g) : loc(e) <= loc(d)) /\ (\A e \in d + 1 .. Len(g) : loc(e) < loc(d))

RECURSIVE Distribute(_, _, _, _)
\* while exps[n] > 0: nb[dmax] *= facs[n]; exps[n] -= 1
Distribute(nb, g, f, e) == IF e = 0 THEN nb ELSE Distribute([nb EXCEPT ![DMax(nb, g)] = @ * f], g, f, e - 1)

RECURSIVE HybAssign(_, _, _, _, _)
HybAssign(nb, g, facs, exps, n) ==
    IF n = 0 THEN nb ELSE HybAssign(Distribute(nb, g, facs[n], exps[n]), g, facs, exps, n - 1)

Hybrid(np, g) ==
    LET dim  == Len(g)
        r    == HybExps(np, [d \in 1 .. dim |-> 0], 1, dim)
        rest == r[1]
        facs == IF rest > 1 THEN [Facs(dim) EXCEPT ![dim] = rest] ELSE Facs(dim)
        exps == IF rest > 1 THEN [r[2] EXCEPT ![dim] = 1] ELSE r[2]
    IN HybAssign([d \in 1 .. dim |-> 1], g, facs, exps, dim)

NBlocks == IF algo = "Hybrid" THEN Hybrid(nProcs, grid) ELSE ChatGPT(nProcs, Dim)

\* ---- localBounds for block coordinate r (0-based) in a dimension with n points and nb blocks ----
N0(n, nb) == n \div nb
NRest(n, nb) == n - nb * N0(n, nb)
NLoc(r, n, nb) == N0(n, nb) + (IF r < NRest(n, nb) THEN 1 ELSE 0)
ILoc(r, n, nb) == r * N0(n, nb) + (IF r >= NRest(n, nb) THEN NRest(n, nb) ELSE 0) + (IF r < NRest(n, nb) THEN r ELSE 0)

\* block coordinates of a global rank (C order)
RankCoord(g, nb, d) == (g \div Prod(SubSeq(nb, d + 1, Len(nb)))) % nb[d]

\* ---- property ------------------------------------------------------------------
Tiles(n, nb) ==
    /\ ILoc(0, n, nb) = 0
    /\ \A r \in 0 .. nb - 2 : ILoc(r + 1, n, nb) = ILoc(r, n, nb) + NLoc(r, n, nb)
    /\ ILoc(nb - 1, n, nb) + NLoc(nb - 1, n, nb) = n
    /\ \A r \in 0 .. nb - 1 : NLoc(r, n, nb) >= 0

Partition ==
    LET nb == NBlocks IN
    /\ Len(nb) = Dim
    /\ Prod(nb) = nProcs
    /\ \A d \in 1 .. Dim : nb[d] >= 1 /\ Tiles(grid[d], nb[d])
    \* distinct ranks get distinct blocks
    /\ \A g1, g2 \in 0 .. nProcs - 1 :
          g1 # g2 => \E d \in 1 .. Dim : RankCoord(g1, nb, d) # RankCoord(g2, nb, d)

Export ==
    EXPORT => PrintT(ToJson([blk |-> TRUE, np |-> nProcs, grid |-> grid, algo |-> algo, nb |-> NBlocks,
                             bounds |-> [d \in 1 .. Dim |-> [r \in 1 .. NBlocks[d] |->
                                            <<ILoc(r - 1, grid[d], NBlocks[d]), NLoc(r - 1, grid[d], NBlocks[d])>>]]]))

Grids == UNION {[1 .. d -> SIZES] : d \in DIMS}

Init == /\ nProcs \in MINPROCS .. MAXPROCS /\ grid \in Grids /\ algo \in {"Hybrid", "ChatGPT"}
Next == UNCHANGED vars
Spec == Init /\ [][Next]_vars
=============================================================================
