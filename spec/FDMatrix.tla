------------------------------- MODULE FDMatrix -------------------------------
(***************************************************************************)
(* Index-level model of pySDC/helpers/problem_helper.py                    *)
(*   get_finite_difference_matrix  (assembly only: which coefficient of    *)
(*   which stencil lands in which matrix entry).                           *)
(* A stencil is a sorted tuple of distinct integer offsets; its k-th       *)
(* weight is the SYMBOL k (1-based).  Numbers never appear.                *)
(*                                                                         *)
(* Expected* is what the property demands:                                 *)
(*   periodic  : row r holds weight k at column (r + offs[k]) mod N        *)
(*   dirichlet : interior rows hold weight k at column r + offs[k];        *)
(*               a row within the half-width of a boundary holds the       *)
(*               weights of the SHIFTED stencil of width W = order+deriv   *)
(*               anchored on the boundary point, the weight that falls on  *)
(*               the boundary point going to the vector b                  *)
(* Assemble* transcribes the loops of the code.  LOOP selects how the      *)
(* periodic loop of the code under test walks the stencil:                 *)
(*   "values"  : `for i in steps` (offset VALUES used as python indices)   *)
(*   "indices" : `for i in range(len(steps))`                              *)
(***************************************************************************)
EXTENDS Integers, Sequences, FiniteSets, SequencesExt, TLC, Json

CONSTANTS MAXOFF, MINLEN, MAXLEN, MAXN, LOOP, EXPORT, BCS

VARIABLES offs, N, bc, W

vars == <<offs, N, bc, W>>

n == Len(offs)
Width == offs[n] - offs[1] + 1
Span(s) == (IF s[Len(s)] > 0 THEN s[Len(s)] ELSE 0) - (IF s[1] < 0 THEN s[1] ELSE 0) + 1

\* python indexing of a sequence of length n with (possibly negative) index i; 0 = IndexError
PyIdx(i) == IF i >= 0 /\ i < n THEN i + 1 ELSE IF i < 0 /\ -i <= n THEN n + i + 1 ELSE 0

\* entries are <<row, col, what>> with rows/cols 0-based; a bag is a function entry -> multiplicity
BagOf(S) == S   \* sets of <<row, col, what, copy>> keep multiplicities apart through the `copy` field

\* ---- periodic ---------------------------------------------------------------
ExpectedPeriodic == {<<r, (r + offs[k]) % N, k, 1>> : r \in 0 .. N - 1, k \in 1 .. n}

\* sp.eye(N, k=s): ones at (r, r+s) inside the matrix
Eye(s) == {<<r, r + s>> : r \in {q \in 0 .. N - 1 : q + s >= 0 /\ q + s <= N - 1}}

\* one pass of the loop body for python index j (1-based k = j), tagged with the pass number
Pass(k, t) ==
    LET s == offs[k]
        main == {<<e[1], e[2], k, t>> : e \in Eye(s)}
        wrap == IF s > 0 THEN {<<e[1], e[2], k, t>> : e \in Eye(s - N)}
                ELSE IF s < 0 THEN {<<e[1], e[2], k, t>> : e \in Eye(N + s)} ELSE {}
    IN main \cup wrap

AssemblePeriodic ==
    IF LOOP = "indices" THEN UNION {Pass(k, 1) : k \in 1 .. n}
    ELSE \* for i in steps: coeff[i], steps[i]   -- i runs over the offset VALUES
         IF \E j \in 1 .. n : PyIdx(offs[j]) = 0 THEN {<<-1, -1, 0, 0>>}     \* IndexError
         ELSE UNION {LET k == PyIdx(offs[j])
                         \* the t-th pass that uses python index k
                         t == Cardinality({i \in 1 .. j : PyIdx(offs[i]) = k})
                     IN Pass(k, t) : j \in 1 .. n}

PeriodicOK == bc = "periodic" => AssemblePeriodic = ExpectedPeriodic

\* ---- dirichlet (shifted boundary stencils, reduce = False) ---------------------
\* W = order + derivative = width of the shifted boundary stencils (and of the built-in interior stencils)
LeftHalf  == -offs[1]
RightHalf == offs[n]

\* shifted stencil for boundary row i (0-based distance from the boundary): offsets relative to the row
LeftSteps(i)  == [m \in 1 .. W |-> -(i + 1) + (m - 1)]
RightSteps(i) == [m \in 1 .. W |-> -W + (i + 2) + (m - 1)]

\* what the property demands
ExpectedDirichletA ==
       {<<r, r + offs[k], <<"w", k>>, 1>> : r \in {q \in 0 .. N - 1 : q >= LeftHalf /\ q <= N - 1 - RightHalf}, k \in 1 .. n}
  \cup {<<i, i + LeftSteps(i)[m], <<"l", i, m>>, 1>> : i \in 0 .. LeftHalf - 1, m \in 2 .. W}
  \cup {<<N - 1 - i, N - 1 - i + RightSteps(i)[m], <<"r", i, m>>, 1>> : i \in 0 .. RightHalf - 1, m \in 1 .. W - 1}
ExpectedDirichletB ==
       {<<i, <<"l", i, 1>>>> : i \in 0 .. LeftHalf - 1}
  \cup {<<N - 1 - i, <<"r", i, W>>>> : i \in 0 .. RightHalf - 1}

\* transcription: sp.diags(coeff, steps) then row replacement A[iLine, :] = 0; A[iLine, colSlice] = b_coeff[sCoeff]
Diags == {<<r, r + offs[k], <<"w", k>>, 1>> : r \in {q \in 0 .. N - 1 : \E kk \in 1 .. n : TRUE}, k \in 1 .. n}
DiagsIn == {e \in Diags : e[2] >= 0 /\ e[2] <= N - 1}
\* left rows i = 0 .. sWidth-1 : columns 0 .. W-2 get b_coeff[1:]
LeftRows  == {<<i, c, <<"l", i, c + 2>>, 1>> : i \in 0 .. LeftHalf - 1, c \in 0 .. W - 2}
\* right rows -i-1 : columns N-W+1 .. N-1 get b_coeff[:-1]
RightRows == {<<N - 1 - i, N - W + 1 + c, <<"r", i, c + 1>>, 1>> : i \in 0 .. RightHalf - 1, c \in 0 .. W - 2}
Replaced == {i : i \in 0 .. LeftHalf - 1} \cup {N - 1 - i : i \in 0 .. RightHalf - 1}
AssembleDirichletA ==
    \* the right side is processed after the left one: a row replaced by both keeps the right version
    LET keepL == {e \in LeftRows : e[1] \notin {N - 1 - i : i \in 0 .. RightHalf - 1}}
    IN {e \in DiagsIn : e[1] \notin Replaced} \cup keepL \cup RightRows
AssembleDirichletB ==
    LET R == {<<N - 1 - i, <<"r", i, W>>>> : i \in 0 .. RightHalf - 1}
        L == {<<i, <<"l", i, 1>>>> : i \in 0 .. LeftHalf - 1}
    IN {e \in L : e[1] \notin {x[1] : x \in R}} \cup R

DirichletOK ==
    (bc = "dirichlet" /\ N >= W /\ N >= LeftHalf + RightHalf + 1) =>
        /\ AssembleDirichletA = ExpectedDirichletA
        /\ AssembleDirichletB = ExpectedDirichletB

\* every row of an assembled periodic matrix applies the complete stencil once
RowComplete == bc = "periodic" /\ N >= Span(offs) =>
    \A r \in 0 .. N - 1 : {e[3] : e \in {x \in ExpectedPeriodic : x[1] = r}} = 1 .. n

\* ---- Kronecker sum index law (n-D) ----------------------------------------------
\* A_2d[(r1,r2),(c1,c2)] = A1[r1,c1]*[r2=c2] + [r1=c1]*A1[r2,c2]
Kron2(A1) == {<<e[1] * N + q, e[2] * N + q, e[3], 1>> : e \in A1, q \in 0 .. N - 1}
        \cup {<<q * N + e[1], q * N + e[2], e[3], 2>> : e \in A1, q \in 0 .. N - 1}

Export == EXPORT => PrintT(ToJson([fd |-> TRUE, offs |-> offs, N |-> N, bc |-> bc, W |-> W,
                                   A |-> IF bc = "periodic" THEN ExpectedPeriodic ELSE ExpectedDirichletA,
                                   b |-> IF bc = "periodic" THEN {} ELSE ExpectedDirichletB]))

OffsetSeqs == {s \in UNION {[1 .. m -> -MAXOFF .. MAXOFF] : m \in MINLEN .. MAXLEN} :
                    \A i \in 1 .. Len(s) - 1 : s[i] < s[i + 1]}

Init == /\ offs \in OffsetSeqs
        /\ bc \in BCS
        /\ N \in 1 .. MAXN
        /\ W \in 2 .. MAXLEN + 1
        \* grid at least as large as the stencil, measured from the point the stencil is applied at
        /\ (bc = "periodic" => (W = 2 /\ N >= Span(offs)))
        /\ (bc = "dirichlet" => (offs[1] <= 0 /\ offs[Len(offs)] >= 0 /\ N >= W
                                  /\ N >= offs[Len(offs)] - offs[1] + 1 /\ W >= Len(offs)
                                  /\ W > offs[Len(offs)] /\ W > -offs[1]))
Next == UNCHANGED vars
Spec == Init /\ [][Next]_vars
=============================================================================
