----------------------------- MODULE SdcAlgebraMC -----------------------------
(***************************************************************************)
(* Enumeration (exhaustive, RANDOM = FALSE) or sampling (RANDOM = TRUE,    *)
(* run with -simulate) of instances for SdcAlgebra and evaluation of the   *)
(* algebraic properties on each of them.  An instance is built in stages   *)
(* so that the breadth-first search is spread over the TLC workers.        *)
(*   stage 0: kind, sizes, operator A/B/c, dt, flags                       *)
(*   stage 1: quadrature / preconditioner matrices (and transfer matrices) *)
(*   stage 2: data u0, U, tau                  -> properties evaluated     *)
(* MODE "sweep"    : single level (C02, fixed-point clauses of C01)        *)
(* MODE "transfer" : two levels, restriction / coarse sweep / prolongation *)
(*                   (C10)                                                 *)
(***************************************************************************)
EXTENDS SdcAlgebra, Json

CONSTANTS MODE, KINDS, MS, NS, DTS, RANDOM, EXPORT, EXPORTMOD, WITHB, H1, RNCU, WANY, TAUS

VARIABLES stage, inst

vars == <<stage, inst>>

Pick(S) == IF RANDOM THEN {RandomElement(S)} ELSE S
Vecs(n) == [1 .. n -> Zp]
Mats(r, c) == [1 .. r -> [1 .. c -> Zp]]
RandVec(n) == [i \in 1 .. n |-> RandomElement(Zp)]
RandMat(r, c) == [i \in 1 .. r |-> [j \in 1 .. c |-> RandomElement(Zp)]]
PickVec(n) == IF RANDOM THEN {RandVec(n)} ELSE Vecs(n)
PickMat(r, c) == IF RANDOM THEN {RandMat(r, c)} ELSE Mats(r, c)
Lower(Mx) == [i \in 1 .. Len(Mx) |-> [j \in 1 .. Len(Mx) |-> IF j <= i THEN Mx[i][j] ELSE 0]]
StrictLower(Mx) == [i \in 1 .. Len(Mx) |-> [j \in 1 .. Len(Mx) |-> IF j < i THEN Mx[i][j] ELSE 0]]
LowerMats(M) == {Lower(x) : x \in PickMat(M, M)}
StrictLowerMats(M) == {StrictLower(x) : x \in PickMat(M, M)}
ZeroMat(n) == [i \in 1 .. n |-> [j \in 1 .. n |-> 0]]
\* restriction matrices over the nodes whose rows sum to one (hypothesis H1), or arbitrary ones
FixRow(row) == [j \in 1 .. Len(row) |-> IF j = Len(row) THEN Md(1 - SumSeq(SubSeq(row, 1, Len(row) - 1)) + P * P) ELSE row[j]]
RcMats(Mc, Mf) == IF H1 THEN {[k \in 1 .. Mc |-> FixRow(x[k])] : x \in PickMat(Mc, Mf)} ELSE PickMat(Mc, Mf)

Init ==
    /\ stage = 0
    /\ \E kind \in KINDS, M \in MS, n \in NS, dt \in DTS, rc \in RNCU :
       LET rn == rc \in {"TF", "TT"} cu == rc \in {"TT", "FT"} IN
       \E A \in PickMat(n, n), B \in (IF WITHB THEN PickMat(n, n) ELSE {ZeroMat(n)}), c \in (IF WITHB THEN Pick(Zp) ELSE {0}),
          g \in (IF WITHB /\ RANDOM THEN PickVec(n) ELSE {Zero(n)}) :
          /\ (kind = "impl" => (B = ZeroMat(n) /\ c = 0 /\ g = Zero(n)))
          /\ inst = [kind |-> kind, M |-> M, n |-> n, dt |-> dt, rightnode |-> rn, collupdate |-> cu, A |-> A, B |-> B, c |-> c, g |-> g]

Stage1 ==
    /\ stage = 0
    /\ stage' = 1
    /\ LET M == inst.M IN
       \E Q \in PickMat(M, M),
          QI \in (IF inst.kind = "expl" THEN {ZeroMat(M)} ELSE LowerMats(M)),
          QE \in (IF inst.kind = "impl" THEN {ZeroMat(M)} ELSE StrictLowerMats(M)) :
       \E w \in (IF WANY THEN PickVec(M) ELSE {Q[M]}) :
          IF MODE = "sweep"
          THEN \E tn \in (IF RANDOM /\ inst.kind # "impl" THEN PickVec(M) ELSE {Zero(M)}) :
               inst' = inst @@ [Q |-> Q, QI |-> QI, QE |-> QE, w |-> w, tn |-> tn]
          ELSE \E Mc \in {m \in MS : m <= M}, nc \in {k \in NS : k <= inst.n} :
               \E Qc \in PickMat(Mc, Mc), QIc \in LowerMats(Mc), QEc \in StrictLowerMats(Mc),
                  Rc \in RcMats(Mc, M), Pc \in PickMat(M, Mc), Rs \in PickMat(nc, inst.n), Ps \in PickMat(inst.n, nc),
                  Ac \in PickMat(nc, nc),
                  tn \in (IF RANDOM /\ inst.kind # "impl" THEN PickVec(M) ELSE {Zero(M)}),
                  tnc \in (IF RANDOM /\ inst.kind # "impl" THEN PickVec(Mc) ELSE {Zero(Mc)}),
                  gc \in (IF RANDOM /\ inst.kind # "impl" THEN PickVec(nc) ELSE {Zero(nc)}) :
                    inst' = inst @@ [Q |-> Q, QI |-> QI, QE |-> QE, w |-> w, tn |-> tn,
                                     G |-> [kind |-> inst.kind, M |-> Mc, n |-> nc, dt |-> inst.dt, rightnode |-> TRUE, collupdate |-> FALSE,
                                            A |-> Ac, B |-> ZeroMat(nc), c |-> 0, Q |-> Qc, QI |-> QIc, QE |-> QEc,
                                            w |-> [i \in 1 .. Mc |-> 0], tn |-> tnc, g |-> gc],
                                     T |-> [Rc |-> Rc, Pc |-> Pc, Rs |-> Rs, Ps |-> Ps]]

Stage2 ==
    /\ stage = 1
    /\ stage' = 2
    /\ \E u0 \in PickVec(inst.n), U \in (IF RANDOM THEN {[m \in 1 .. inst.M |-> RandVec(inst.n)]} ELSE [1 .. inst.M -> Vecs(inst.n)]),
          tau \in (IF "none" \in TAUS THEN {<<>>} ELSE {}) \cup
                  (IF "any" \in TAUS THEN (IF RANDOM THEN {[m \in 1 .. inst.M |-> RandVec(inst.n)]} ELSE [1 .. inst.M -> Vecs(inst.n)]) ELSE {}) :
          inst' = inst @@ [u0 |-> u0, U |-> U, tau |-> tau]

Next == Stage1 \/ Stage2 \/ (stage = 2 /\ UNCHANGED vars)
Spec == Init /\ [][Next]_vars

Full == stage = 2
L == inst

\* ---- properties (C02 / C01 single level) ------------------------------------------------
SweepOK == (Full /\ MODE = "sweep" /\ SweepDefined(L, L.kind)) =>
               PicardHolds(L, L.kind, L.u0, L.U, L.tau, Sweep(L, L.kind, L.u0, L.U, L.tau))
FixedPointOK == (Full /\ MODE = "sweep" /\ SweepDefined(L, L.kind)) =>
               (FixedPointHasZeroDefect(L, L.kind, L.u0, L.U, L.tau) /\ ZeroDefectIsFixedPoint(L, L.kind, L.u0, L.U, L.tau))
\* end point: last node, or u0 + dt sum w f (+ tau_M) -- and if the defect vanishes and the weights are the last row
\* of Q, both forms agree (consistency of the two end-point modes)
EndPointConsistent == (Full /\ MODE = "sweep" /\ L.w = L.Q[L.M] /\ \A m \in 1 .. L.M : Defect(L, L.u0, L.U, L.tau)[m] = Zero(L.n)) =>
               EndPoint([L EXCEPT !.rightnode = TRUE, !.collupdate = FALSE], L.u0, L.U, L.tau)
                   = EndPoint([L EXCEPT !.collupdate = TRUE], L.u0, L.U, L.tau)

\* ---- properties (C10 two levels) ------------------------------------------------------------
TauOK == (Full /\ MODE = "transfer") => TauDefinition(L, L.G, L.T, L.u0, L.U, L.tau)
CoarseDefectOK == (Full /\ MODE = "transfer" /\ RowsSumToOne(L.T.Rc, L.G.M, L.M)) =>
                       CoarseDefectIsRestrictedFineDefect(L, L.G, L.T, L.u0, L.U, L.tau)
DownUpOK == (Full /\ MODE = "transfer" /\ RowsSumToOne(L.T.Rc, L.G.M, L.M)) =>
                       DownUpPreservesFixedPoint(L, L.G, L.T, L.kind, L.u0, L.U, L.tau)
DownUpFOK == (Full /\ MODE = "transfer" /\ RowsSumToOne(L.T.Rc, L.G.M, L.M)) =>
                       DownUpFPreservesFixedPoint(L, L.G, L.T, L.kind, L.u0, L.U, L.tau)
\* documented NON-theorem: without H1 the restricted fine solution is in general not a coarse fixed point
DownUpWithoutH1 == (Full /\ MODE = "transfer") => DownUpPreservesFixedPoint(L, L.G, L.T, L.kind, L.u0, L.U, L.tau)

\* ---- export of instances with the model's results (spec -> code replay) ------------------------
Mix == Md(SumSeq([m \in 1 .. L.M |-> SumSeq(L.U[m]) * (m + 1)]) + SumSeq(L.u0))
Export ==
    (EXPORT /\ Full /\ (RANDOM \/ Mix % EXPORTMOD = 0)) =>
        PrintT(ToJson(
            IF MODE = "sweep"
            THEN [alg |-> TRUE, inst |-> L,
                  defined |-> SweepDefined(L, L.kind),
                  sweep |-> IF SweepDefined(L, L.kind) THEN Sweep(L, L.kind, L.u0, L.U, L.tau) ELSE <<>>,
                  integrate |-> Integrate(L, L.U), res |-> ResidualNorms(L, L.u0, L.U, L.tau),
                  uend |-> EndPoint(L, L.u0, L.U, L.tau)]
            ELSE LET R == RestrictLv(L, L.G, L.T, L.u0, L.U, L.tau)
                     ok == SweepDefined(L.G, L.kind)
                     GUn == IF ok THEN Sweep(L.G, L.kind, R.u0, R.U, R.tau) ELSE R.U
                 IN [alg |-> TRUE, inst |-> L, defined |-> ok, restricted |-> R, coarse_swept |-> GUn,
                     prolonged |-> ProlongLv(L, L.G, L.T, L.U, GUn, R.Uold)]))
=============================================================================
