"""C07 -- block protocol is safe for every convergence pattern of the parallel steps"""
from checks.serial_check import scenario, run_property
from checks.serial_replay import replay  # noqa: F401


def scenarios(tier):
    S = []
    # single level: SDC / MSSDC, Jacobi and Gauss-Seidel, all_to_done on/off; every pattern of (converged, forced)
    for jac in (True, False):
        for a2d in (False, True):
            S.append(scenario(f'sl_np3_j{int(jac)}_a{int(a2d)}', dict(NP=3, NL=1, MAXITER=3, JAC=jac, A2D=a2d, TEND=12),
                              fd=(False, True), explore=3000 if not a2d else 800, live=(jac and not a2d)))
    # TLC-generated behaviours (all of them for a small configuration, sampled for a larger one) replayed on the code
    S.append(scenario('gen_np2', dict(NP=2, NL=1, MAXITER=2, TEND=8), fd=(False, True), gen='all'))
    S.append(scenario('gen_np3_ml2', dict(NP=3, NL=2, NSW=[1, 1], MAXITER=3, PRED='pfasst_burnin', TEND=12), mc=False, gen=150))
    # two levels: MLSDC / PFASST with every predictor
    for pred in ('none', 'fine_only', 'pfasst_burnin'):
        S.append(scenario(f'ml2_np3_{pred}', dict(NP=3, NL=2, NSW=[1, 1], MAXITER=3, PRED=pred, TEND=12),
                          explore=600))
    S.append(scenario('ml2_np2_nsw2', dict(NP=2, NL=2, NSW=[2, 1], MAXITER=2, PRED='pfasst_burnin', TEND=8),
                      fd=(False, True), explore=400))
    # three levels with mid-level sweeps
    S.append(scenario('ml3_np2', dict(NP=2, NL=3, NSW=[1, 2, 1], MAXITER=2, PRED='pfasst_burnin', TEND=8), explore=300))
    # more steps than the remaining interval; beyond the exhaustive bounds by random scripts
    S.append(scenario('sl_np4_rand', dict(NP=4, NL=1, MAXITER=4, TEND=24), fd=(False, True), mc=True, rand=60))
    if tier == 'thorough':
        for jac in (True, False):
            S.append(scenario(f'T_sl_np4_j{int(jac)}', dict(NP=4, NL=1, MAXITER=4, JAC=jac, TEND=16), fd=(False, True),
                              explore=12000, mc_workers=8))
        for pred in ('none', 'fine_only', 'pfasst_burnin'):
            S.append(scenario(f'T_ml3_np4_{pred}', dict(NP=4, NL=3, NSW=[2, 2, 1], MAXITER=4, PRED=pred, TEND=16),
                              explore=4000, mc_workers=8))
            S.append(scenario(f'T_ml2_np4_a2d_{pred}', dict(NP=4, NL=2, NSW=[2, 1], MAXITER=4, PRED=pred, A2D=True, TEND=16),
                              fd=(False, True), explore=2500, mc_workers=8))
        S.append(scenario('T_np8_rand', dict(NP=8, NL=2, NSW=[1, 1], MAXITER=10, PRED='pfasst_burnin', TEND=64), mc=False,
                          rand=400))
    return S


def run(tier, seed):
    return run_property('C07', scenarios(tier), tier, seed)
