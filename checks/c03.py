"""C03 -- reported residual is the true collocation defect; stopping is sound"""
from checks.serial_check import scenario, run_property
from checks.serial_replay import replay  # noqa: F401


def real_runs():
    """unscripted runs of real problems: the residual is the real one, the trace carries the independently
    recomputed defect and the freshness of the data the residual was computed from"""
    R = []
    for rt in ('full_abs', 'last_abs', 'full_rel', 'last_rel'):
        for restol in (1e-1, 1e-4, 1e-9, 10.0):  # reached at iteration 0 (10.0), early, late/never
            R.append(dict(problem='test', residual_type=rt, restol=restol))
    for prob in ('heat', 'imex', 'vdp'):
        for restol in (1e-3, 1e-8):
            R.append(dict(problem=prob, restol=restol))
    return R


def scenarios(tier):
    S = []
    # every sequence of residual verdicts, forced stops and forced continuations a step can see
    S.append(scenario('np1_mi3', dict(NP=1, MAXITER=3, TEND=8), fd=(False, True), fc=(False, True), explore=3000,
                      constraints=['\\A p \\in Slots : st.iter[p] <= 4']))
    S.append(scenario('gen_np2_mi1', dict(NP=2, MAXITER=1, TEND=8), fd=(False, True), fc=(False, True), gen='all',
                      constraints=['\\A p \\in Slots : st.iter[p] <= 2']))
    S.append(scenario('np1_mi0', dict(NP=1, MAXITER=0, TEND=8), fd=(False, True), fc=(False, True), explore=500,
                      constraints=['\\A p \\in Slots : st.iter[p] <= 3']))
    for jac in (True, False):
        S.append(scenario(f'np3_mi2_j{int(jac)}', dict(NP=3, MAXITER=2, JAC=jac, TEND=12), fd=(False, True), fc=(False, True),
                          explore=2500, constraints=['\\A p \\in Slots : st.iter[p] <= 4']))
    S.append(scenario('ml2_np2_mi2', dict(NP=2, NL=2, NSW=[2, 1], MAXITER=2, PRED='fine_only', TEND=8), fd=(False, True),
                      fc=(False, True), explore=1500, constraints=['\\A p \\in Slots : st.iter[p] <= 4']))
    # real residuals: 1 and 3 steps, 1 and 2 levels
    S.append(scenario('real_np1', dict(NP=1, MAXITER=6, TEND=8), mc=False, real=real_runs()))
    S.append(scenario('real_np3', dict(NP=3, MAXITER=6, TEND=12), mc=False, real=real_runs()))
    S.append(scenario('real_np3_gs', dict(NP=3, MAXITER=6, TEND=12, JAC=False), mc=False, real=real_runs()[:8]))
    S.append(scenario('real_ml2_np2', dict(NP=2, NL=2, NSW=[1, 1], MAXITER=5, PRED='pfasst_burnin', TEND=8), mc=False,
                      real=[r for r in real_runs() if r['problem'] in ('test', 'heat', 'imex')]))
    # several sweeps per iteration on the finest level: the residual after each of them
    S.append(scenario('real_np2_nsw3', dict(NP=2, NSW=[3], MAXITER=4, TEND=8), mc=False, real=real_runs()))
    S.append(scenario('real_ml2_np2_nsw2', dict(NP=2, NL=2, NSW=[2, 1], MAXITER=4, PRED='fine_only', TEND=8), mc=False,
                      real=[r for r in real_runs() if r['problem'] in ('test', 'heat', 'imex')]))
    S.append(scenario('real_np3_collupdate', dict(NP=3, MAXITER=6, TEND=12, ENDDEP=True), mc=False, real=real_runs()[:8]))
    if tier == 'thorough':
        S.append(scenario('T_np4_mi4', dict(NP=4, MAXITER=4, TEND=16), fd=(False, True), fc=(False, True), explore=60000,
                          mc_workers=8, constraints=['\\A p \\in Slots : st.iter[p] <= 6']))
        S.append(scenario('T_ml3_np3', dict(NP=3, NL=3, NSW=[1, 2, 1], MAXITER=3, PRED='pfasst_burnin', TEND=12),
                          fd=(False, True), fc=(False, True), explore=30000, mc_workers=8,
                          constraints=['\\A p \\in Slots : st.iter[p] <= 5']))
        S.append(scenario('T_real_ml3_np4', dict(NP=4, NL=3, NSW=[1, 1, 1], MAXITER=8, PRED='pfasst_burnin', TEND=32), mc=False,
                          real=[r for r in real_runs() if r['problem'] in ('test', 'heat', 'imex')]))
        S.append(scenario('T_rand_np6', dict(NP=6, MAXITER=8, TEND=48), fd=(False, True), fc=(False, True), mc=False, rand=500))
    return S


def run(tier, seed):
    return run_property('C03', scenarios(tier), tier, seed,
                        extra_assumptions=['float runs: the recomputed defect norm is compared with the reported residual '
                                           'up to 1e-8 relative (different summation order)'])
