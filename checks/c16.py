"""C16 -- field files round-trip bit-exactly and survive interrupted appends; block decomposition is a partition"""
import json
import multiprocessing as mp
import os
import random
import shutil
import sys
import tempfile

from lib import tlc
from lib.evidence import Report, load_known

# where addField puts a record in the code under test; the specification mirrors the code
MODE = 'aligned'

FIO_INVARIANTS = ['TypeOK', 'IncompleteNeverReported', 'CompletedRecordsIntact']
FIO_PROPS = ['IndexStable', 'NoSilentOverwrite', 'HeaderStable']


def fio_consts(H, R, maxadd, maxcrash, maxinit, hist, mode=None):
    return dict(H=str(H), R=str(R), MAXADD=str(maxadd), MAXCRASH=str(maxcrash), MAXINIT=str(maxinit),
                MODE=f'"{mode or MODE}"', HIST='TRUE' if hist else 'FALSE', MAXHIST='18', NHANDLES='2')


def fio_mc(wd, H, R, maxadd, maxcrash, maxinit, mode=None):
    os.makedirs(wd, exist_ok=True)
    cfg = os.path.join(wd, 'F.cfg')
    tlc.write_cfg(cfg, spec='Spec', constants=fio_consts(H, R, maxadd, maxcrash, maxinit, False, mode),
                  invariants=FIO_INVARIANTS, properties=FIO_PROPS, check_deadlock=False)
    return tlc.run_tlc('FieldsIO', cfg, workers=4, timeout=900)


def fio_gen(wd, H, R, maxadd, maxcrash, maxinit, num, seed, mode=None):
    os.makedirs(wd, exist_ok=True)
    cfg = os.path.join(wd, 'G.cfg')
    tlc.write_cfg(cfg, spec='Spec', constants=fio_consts(H, R, maxadd, maxcrash, maxinit, True, mode),
                  invariants=['GenPrint'], check_deadlock=False, constraints=['HistBound'])
    res = tlc.run_tlc('FieldsIO', cfg, workers=4, timeout=600, simulate=num, depth=50, seed=seed)
    seen = {}
    for v in res.prints:
        if isinstance(v, dict) and v.get('gen'):
            seen[json.dumps(v['hist'])] = v
    return list(seen.values()), res


def _replay_job(args):
    beh, variant, H, R, seed, mode, newproc = args
    from harness import crashfs
    wd = tempfile.mkdtemp(prefix='verif_fio_')
    try:
        rng = random.Random(seed)
        probs, n = crashfs.replay(beh['hist'], beh, variant, wd, H, R, rng, mode=mode, newproc=newproc)
    except Exception as e:  # noqa
        from lib.errors import describe, is_library
        d = describe(e, 400)
        probs, n = [('readback: the library raised ' if is_library(d) else 'harness exception ') + d], 0
    finally:
        shutil.rmtree(wd, ignore_errors=True)
    return probs, n


def blocks_run(wd, lo, hi, sizes, dims, export):
    os.makedirs(wd, exist_ok=True)
    cfg = os.path.join(wd, 'B.cfg')
    tlc.write_cfg(cfg, spec='Spec', constants=dict(MINPROCS=str(lo), MAXPROCS=str(hi),
                                                   SIZES='{' + ','.join(map(str, sizes)) + '}',
                                                   DIMS='{' + ','.join(map(str, dims)) + '}',
                                                   EXPORT='TRUE' if export else 'FALSE'),
                  invariants=['Partition', 'Export'], check_deadlock=False)
    return tlc.run_tlc('Blocks', cfg, workers=2, timeout=1800, heap='3g')


def _blocks_job(args):
    return blocks_run(*args)


def _blocks_compare(rows):
    """compare exported rows with the real BlockDecomposition"""
    from pySDC.helpers.blocks import BlockDecomposition
    import numpy as np
    bad = []
    for r in rows:
        np_, grid, algo = r['np'], list(r['grid']), r['algo']
        try:
            b = BlockDecomposition(np_, grid, algo=algo)
        except Exception as e:  # noqa
            bad.append(dict(case=[np_, grid, algo], why=f'{type(e).__name__}: {e}'))
            continue
        if list(b.nBlocks) != list(r['nb']):
            bad.append(dict(case=[np_, grid, algo], why=f'nBlocks {b.nBlocks} != model {r["nb"]}'))
            continue
        # every global rank: its bounds must be the model's bounds of its block coordinates; all ranks disjoint
        seen = set()
        for g in range(np_):
            bb = BlockDecomposition(np_, grid, algo=algo, gRank=g)
            coords = bb.ranks
            iloc, nloc = bb.localBounds
            for d in range(len(grid)):
                exp = r['bounds'][d][int(coords[d])]
                if [int(iloc[d]), int(nloc[d])] != [exp[0], exp[1]]:
                    bad.append(dict(case=[np_, grid, algo], why=f'rank {g} dim {d}: {iloc[d], nloc[d]} != {exp}'))
            key = tuple(int(c) for c in coords)
            if key in seen:
                bad.append(dict(case=[np_, grid, algo], why=f'two ranks share block {key}'))
            seen.add(key)
    return bad, len(rows)


def run(tier, seed):
    rep = Report('C16', tier, seed)
    rep.assumptions = ['crash model: a crash leaves a prefix of the sequential append (no reordering by the file system)',
                       'serial I/O path only (the MPI-IO path of Rectilinear is not exercised)',
                       'abstract byte classes: a crash after k of H (R) abstract bytes stands for the real offsets of '
                       'the k-th of H-1 (R-1) equal chunks of the partial offsets; quick picks first/last/random/8, '
                       'thorough takes every offset']
    rep.rule = ('cases = realisations (variant of class/dtype/nVar/grid x crash byte offsets) of TLC-generated operation '
                'histories on real files; non-trivial = history containing a crash inside a write or a refused/allowed '
                'overwrite (distinct by history)')
    rng = random.Random(seed)
    scratch = tempfile.mkdtemp(prefix='verif_c16_')
    known = load_known()
    try:
        with mp.Pool(16) as pool:
            # ---- blocks (started first, runs in the background of the pool) ----
            sizes = [1, 2, 3, 4, 5, 6, 7, 8, 9, 16, 17]
            if tier == 'thorough':
                bjobs = [(os.path.join(scratch, f'b{i}'), lo, hi, sizes, [1, 2, 3], True)
                         for i, (lo, hi) in enumerate([(1, 8), (9, 16), (17, 24), (25, 32), (33, 40), (41, 48), (49, 56), (57, 64)])]
            else:
                bjobs = [(os.path.join(scratch, f'b{i}'), lo, hi, sizes, [1, 2], True)
                         for i, (lo, hi) in enumerate([(1, 16), (17, 32), (33, 48), (49, 64)])]
                bjobs += [(os.path.join(scratch, 'b3d'), 1, 64, [1, 3, 8, 17], [3], True)]
            bres = pool.map_async(_blocks_job, bjobs, chunksize=1)
            # ---- FieldsIO: exhaustive model checking ----
            confs = [(2, 2, 3, 2, 2), (3, 2, 3, 2, 2), (2, 3, 3, 2, 2)]
            if tier == 'thorough':
                confs += [(3, 3, 4, 2, 2), (2, 2, 4, 3, 3), (4, 4, 3, 2, 2)]
            mcs = [pool.apply_async(fio_mc, (os.path.join(scratch, f'mc{i}'), *c)) for i, c in enumerate(confs)]
            # ---- FieldsIO: TLC-generated histories replayed on real files ----
            gconfs = [(2, 2, 3, 2, 2), (3, 3, 3, 2, 2)] if tier == 'quick' else [(2, 2, 3, 2, 2), (3, 3, 4, 2, 2), (4, 3, 3, 3, 2)]
            jobs = []
            nontrivial = set()
            for gi, c in enumerate(gconfs):
                behs, gres = fio_gen(os.path.join(scratch, f'gen{gi}'), *c, num=2500 if tier == 'quick' else 20000,
                                     seed=seed + gi)
                rep.add_tlc(gres, f'GEN FieldsIO {c}')
                if not behs:
                    rep.machinery.append(f'no behaviours generated for {c}: {gres.raw[-300:]}')
                want = 700 if tier == 'quick' else 6000
                # prefer long histories with crashes inside writes
                behs.sort(key=lambda b: -(len(b['hist']) + 5 * sum(1 for e in b['hist'] if e['op'] == 'crash' and e['kind'] != 'idle')))
                pick = behs[:want // 2] + rng.sample(behs[want // 2:], min(len(behs) - want // 2, want // 2)) if len(behs) > want else behs
                for b in pick:
                    from harness import crashfs
                    variant = crashfs.make_variant(rng)
                    if any(e['op'] == 'crash' and e['kind'] != 'idle' for e in b['hist']) or any(e['op'] == 'init' and not e.get('ok', True) for e in b['hist']):
                        nontrivial.add(json.dumps(b['hist']))
                    jobs.append((b, variant, c[0], c[1], rng.randint(0, 2 ** 31), 'all' if tier == 'thorough' and rng.random() < 0.3 else 'pick',
                                 rng.random() < (0.02 if tier == 'quick' else 0.05)))
            out = pool.map(_replay_job, jobs, chunksize=8)
            nreal = 0
            for (b, variant, H, R, s_, mode, newproc), (probs, n) in zip(jobs, out):
                nreal += n
                for p in probs[:3]:
                    if p.startswith('harness exception'):
                        rep.machinery.append(p)
                    else:
                        rep.violation('fio.' + classify(p), dict(kind='fieldsio', problem=p, all_problems=probs[:10], hist=b['hist'],
                                                                 final={k: b[k] for k in ('reported', 'acked', 'headerok', 'nfields')},
                                                                 variant=variant, H=H, R=R, seed=s_, mode=mode))
                        break
            rep.traces = len(jobs)
            rep.evaluations = nreal
            rep.distinct_nontrivial = len(nontrivial)
            rep.cov['file_realisations'] = nreal
            if jobs:
                rep.samples.append(dict(history=jobs[0][0]['hist'][:12], variant=jobs[0][1]))
            for c, fut in zip(confs, mcs):
                res = fut.get()
                rep.add_tlc(res, f'MC FieldsIO H,R,adds,crashes,inits={c} mode={MODE}')
                if res.violation:
                    rep.violation('model.' + res.violation, dict(kind='model', module='FieldsIO', constants=c, mode=MODE,
                                                                 tlc_error=res.error_text[:8000]))
                elif not res.ok:
                    rep.machinery.append(f'FieldsIO MC {c} did not complete: {res.raw[-300:]}')
            # ---- blocks results ----
            rows = []
            for job, res in zip(bjobs, bres.get()):
                rep.add_tlc(res, f'MC Blocks nProcs {job[1]}..{job[2]} dims {job[4]}')
                if res.violation:
                    rep.violation('model.blocks.' + res.violation, dict(kind='model', module='Blocks', tlc_error=res.error_text[:4000]))
                elif not res.ok:
                    rep.machinery.append(f'Blocks MC {job[1:5]} did not complete: {res.raw[-300:]}')
                rows += [v for v in res.prints if isinstance(v, dict) and v.get('blk')]
            chunks = [rows[i::64] for i in range(64)]
            ncase = 0
            for bad, n in pool.map(_blocks_compare, chunks, chunksize=1):
                ncase += n
                for b in bad[:2]:
                    rep.violation('blocks.conformance', dict(kind='blocks', **b))
            rep.cov['block_cases_compared_with_impl'] = ncase
            rep.traces += ncase
            if rows:
                rep.samples.append(rows[len(rows) // 2])
            if ncase == 0:
                rep.machinery.append('no block decomposition case was exported')
    finally:
        shutil.rmtree(scratch, ignore_errors=True)
    return rep.finish()


def classify(p):
    if 'garbage' in p or 'is not the data of write' in p or 'nFields' in p:
        return 'records'
    if 'overwritten' in p or 'FileExistsError' in p or 'refused' in p:
        return 'overwrite'
    if 'new process' in p:
        return 'newprocess'
    return 'readback'


def replay(path):
    d = json.load(open(path))
    if d.get('kind') != 'fieldsio':
        print(json.dumps(d, indent=1)[:3000])
        return 1
    from harness import crashfs
    wd = tempfile.mkdtemp(prefix='verif_fio_')
    try:
        probs, n = crashfs.replay(d['hist'], d['final'], d['variant'], wd, d['H'], d['R'], random.Random(d['seed']), mode=d['mode'])
    finally:
        shutil.rmtree(wd, ignore_errors=True)
    print('\n'.join(probs[:20]) or 'no problem reproduced')
    return 1 if probs else 0
