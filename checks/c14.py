"""C14 -- statistics are a faithful, uniquely keyed record of the run"""
from checks.serial_check import scenario, run_property
from checks.serial_replay import replay  # noqa: F401


def scenarios(tier):
    S = []
    S.append(scenario('fix_np3', dict(NP=3, MAXITER=2, TEND=20, DT0=4), view='view', explore=600))
    S.append(scenario('rs_np2', dict(NP=2, MAXITER=1, TEND=12, DT0=4, MAXR=2), rs=(False, True), view='view', explore=2000,
                      constraints=['nblk <= 5']))
    S.append(scenario('rs_np3_half', dict(NP=3, MAXITER=1, TEND=12, DT0=4, MAXR=1), rs=(False, True), dtm=(0, 1), view='view',
                      explore=1500, constraints=['nblk <= 3'], mc_workers=8))
    S.append(scenario('rs_np1_half', dict(NP=1, MAXITER=1, TEND=8, DT0=4, MAXR=2), rs=(False, True), dtm=(0, 1), view='view',
                      explore=1000, constraints=['nblk <= 5']))
    S.append(scenario('ml2_np2', dict(NP=2, NL=2, NSW=[2, 1], MAXITER=2, PRED='pfasst_burnin', TEND=16, DT0=4, MAXR=1),
                      rs=(False, True), view='view', explore=800, constraints=['nblk <= 3']))
    # a controller that is used a second time: the statistics of the first run stay the record of the first run
    S.append(scenario('reuse_np4', dict(NP=4, MAXITER=1, T0=40, TEND=56, DT0=4, REUSE=True), rs=(False, True), view='view', explore=150, mc=False))
    S.append(scenario('gen_np2', dict(NP=2, MAXITER=1, TEND=8, DT0=4, MAXR=1), rs=(False, True), dtm=(0, 1), view='view',
                      constraints=['nblk <= 2'], gen='all', mc=False))
    if tier == 'thorough':
        S.append(scenario('T_rs_np3_both', dict(NP=3, MAXITER=2, TEND=16, DT0=4, MAXR=2), rs=(False, True), dtm=(0, 1, 4),
                          view='view', explore=50000, constraints=['nblk <= 4'], mc_workers=12, mc_timeout=3000))
        S.append(scenario('T_rs_np4', dict(NP=4, MAXITER=1, TEND=16, DT0=4, MAXR=2), rs=(False, True), dtm=(0, 1), view='view',
                          explore=50000, constraints=['nblk <= 4'], mc_workers=12, mc_timeout=3000))
        S.append(scenario('T_rand_np5', dict(NP=5, MAXITER=3, TEND=80, DT0=4, MAXR=3), rs=(False, True), dtm=(0, 1, 4), mc=False,
                          rand=800))
    return S


def run(tier, seed):
    import json
    import os
    from lib import evidence as _ev
    from lib.evidence import Report, load_known
    code1 = run_property('C14', scenarios(tier), tier, seed)
    ev1 = json.load(open(os.path.join(_ev.OUT, 'evidence', 'C14.json')))
    rep = Report('C14', tier, seed, clear_replays=False)
    rep.assumptions = ev1.get('assumptions', []) + [
        'helper functions: dictionaries and queries drawn by TLC from StatsHelpers.tla (exhaustive for a tiny key domain, random subsets of '
        'up to 7 entries over 2 types x 3 times x 2 iterations x 3 restart counts x 2 processes otherwise), materialised with real Entry '
        'keys; ticks are mapped to floats on four scales (offsets 0, 1024, 1e6, -3 with tick lengths 1, 2^-10, 1e-3, 1/8)',
        'hook composition: see HookSets part']
    rep.rule = ev1['coverage'].get('rule', '') + ' | synthetic part: cases = (dictionary, query); non-trivial = the query selects something'
    known = load_known()
    synthetic_part(rep, tier, seed)
    hooksets_part(rep, tier, seed)
    for k in ('clause_counts', 'trace_actions', 'traces_validated_against_impl', 'tv_batches', 'explore', 'gen', 'mc_violations', 'tlc_runs'):
        rep.cov.setdefault('run_part', {})[k] = ev1['coverage'].get(k)
    rep.states += ev1['coverage'].get('states', 0)
    rep.transitions += ev1['coverage'].get('transitions', 0)
    rep.traces += ev1['coverage'].get('traces_validated_against_impl', 0)
    rep.evaluations = rep.traces
    rep.distinct_nontrivial = ev1['coverage'].get('distinct_nontrivial', 0) + rep.cov.get('synthetic_nonempty_results', 0)
    rep.samples += ev1['coverage'].get('samples', [])[:1]
    for fid, n in (ev1.get('known_findings') or {}).items():
        text = next((f['text'] for f in known['findings'] if f['id'] == fid), '')
        rep.known[fid] = (n, text)
    if code1 == 1:
        rep.violation('run_part_summary', dict(kind='see the replay files C14_*.json written by the run part'))
    elif code1 == 2:
        rep.machinery.append('run part reported a machinery problem (see output above)')
    return rep.finish()


def _hs_job(c):
    from harness import hooksets
    try:
        return hooksets.compare(c, hooksets.run(c))
    except Exception as e:  # noqa
        from lib.errors import describe
        return ['error: ' + describe(e, 300)]


def hooksets_part(rep, tier, seed):
    """which quantities a run records as a function of the hook classes listed by the user and added by controllers (HookSets.tla)"""
    import multiprocessing as mp
    import os
    import shutil
    import tempfile
    from lib import tlc
    scratch = tempfile.mkdtemp(prefix='verif_c14h_')
    try:
        cfg = os.path.join(scratch, 'HS.cfg')
        tlc.write_cfg(cfg, spec='Spec', constants=dict(MAXLEN='2' if tier == 'quick' else '3'),
                      invariants=['OncePerClass', 'NothingDropped', 'BaseSurvivesSubclass', 'Export'], check_deadlock=False)
        r = tlc.run_tlc('HookSets', cfg, workers=4, timeout=900)
        rep.add_tlc(r, 'HookSets: every list of user hooks x controller configuration')
        if r.violation:
            rep.violation('hooks.model.' + r.violation, dict(kind='model', module='HookSets', tlc_error=r.error_text[:3000]))
        cases = [c for c in r.prints if isinstance(c, dict) and c.get('hs')]
        if not cases:
            rep.machinery.append('HookSets: nothing enumerated: ' + r.raw[-300:])
        with mp.Pool(16) as pool:
            out = pool.map(_hs_job, cases, chunksize=4)
        for c, probs in zip(cases, out):
            rep.traces += 1
            for p in probs[:2]:
                what = p.split(':')[0]
                if what == 'error':
                    rep.problem('hook configuration: ' + p, dict(kind='hook-set', case=c), clause='hooks.unexpected_library_error')
                else:
                    rep.violation('hooks.' + what, dict(kind='hook-set', case=c, problems=probs))
        rep.cov['hook_configurations'] = len(cases)
    finally:
        shutil.rmtree(scratch, ignore_errors=True)


# ---- part 2: the helper functions on arbitrary synthetic dictionaries (StatsHelpers.tla) -------------------------------------
SH_INVS = ['FilterIsSubset', 'Idempotent', 'NoRestartsNoLoss', 'OneGeneration']


def _sh_tlc(args):
    wd, consts, simulate, seed, export = args
    import os
    from lib import tlc
    os.makedirs(wd, exist_ok=True)
    cfg = os.path.join(wd, 'SH.cfg')
    tlc.write_cfg(cfg, spec='Spec', constants=consts, invariants=SH_INVS + (['Export'] if export else []), check_deadlock=False)
    return tlc.run_tlc('StatsHelpers', cfg, workers=1 if simulate else 8, timeout=1500, simulate=simulate, depth=3 if simulate else None,
                       seed=seed if simulate else None, heap='6g')


def _sh_compare(chunk):
    from harness import stats_synth
    bad = []
    n = 0
    for c in chunk:
        for sc in stats_synth.SCALES:
            n += 1
            try:
                p = stats_synth.compare(c, sc)
            except Exception as e:  # noqa
                from lib.errors import describe
                p = ['error: ' + describe(e, 200)]
            if p:
                bad.append(dict(case=c, scale=list(sc), problems=p[:3]))
    return bad, n


def synthetic_part(rep, tier, seed):
    import json
    import multiprocessing as mp
    import os
    import shutil
    import tempfile
    scratch = tempfile.mkdtemp(prefix='verif_c14s_')
    try:
        small = dict(TYPES='{"a"}', TIMES='{0, 1}', ITERS='{0}', NRESTS='{0, 1}', PROCS='{0}', MAXE='2', RANDOM='FALSE')
        big = dict(TYPES='{"a", "b"}', TIMES='{0, 1, 2}', ITERS='{0, 1}', NRESTS='{0, 1, 2}', PROCS='{0, 1}', MAXE='7', RANDOM='TRUE')
        with mp.Pool(16) as pool:
            jobs = [(os.path.join(scratch, 'ex'), small, None, 0, tier == 'thorough')]
            nsim = 4 if tier == 'quick' else 16
            for k in range(nsim):
                jobs.append((os.path.join(scratch, f'sim{k}'), big, 1200 if tier == 'quick' else 4000, seed * 100 + k, True))
            res = pool.map(_sh_tlc, jobs, chunksize=1)
            seen = {}
            for k, r in enumerate(res):
                rep.add_tlc(r, 'StatsHelpers ' + ('exhaustive (tiny domain)' if k == 0 else f'simulation {k}'))
                if r.violation:
                    rep.violation('helpers.model.' + r.violation, dict(kind='model', module='StatsHelpers', tlc_error=r.error_text[:3000]))
                elif not r.ok and k == 0:
                    rep.machinery.append('StatsHelpers exhaustive run did not complete: ' + r.raw[-300:])
                for c in r.prints:
                    if isinstance(c, dict) and c.get('sh'):
                        seen[json.dumps(c, sort_keys=True)] = c
            cases = list(seen.values())
            if not cases:
                rep.machinery.append('StatsHelpers: no dictionary was generated')
            chunks = [cases[i::32] for i in range(32)]
            out = pool.map(_sh_compare, [ch for ch in chunks if ch], chunksize=1)
        ncmp = 0
        for bad, n in out:
            ncmp += n
            for b in bad:
                what = b['problems'][0].split(':')[0]
                if what == 'error':
                    rep.problem('synthetic dictionary: ' + b['problems'][0], dict(kind='synthetic-stats', **b), clause='helpers.unexpected_library_error')
                else:
                    rep.violation('helpers.' + what, dict(kind='synthetic-stats', **b))
        rep.traces += len(cases)
        rep.cov['synthetic_dictionaries'] = len(cases)
        rep.cov['synthetic_comparisons'] = ncmp
        rep.cov['synthetic_nonempty_results'] = sum(1 for c in cases if c['filtered'])
        rep.cov['synthetic_recomputed_filter_effective'] = sum(1 for c in cases if c['query']['recomputed'] == 'false' and len(c['filtered']) < len(
            [e for e in c['dict'] if (c['query']['type'] in ('*', e['type']))]))
    finally:
        shutil.rmtree(scratch, ignore_errors=True)
