"""C14 -- statistics are a faithful, uniquely keyed record of the run"""
from checks.serial_check import scenario, run_property
from checks.serial_replay import replay  # noqa: F401


def scenarios(tier):
    S = []
    S.append(scenario('fix_np3', dict(NP=3, MAXITER=2, TEND=20, DT0=4), view='view', explore=600))
    S.append(scenario('rs_np2', dict(NP=2, MAXITER=1, TEND=12, DT0=4, MAXR=2), rs=(False, True), view='view', explore=2000,
                      constraints=['nblk <= 5']))
    S.append(scenario('rs_np3_half', dict(NP=3, MAXITER=1, TEND=12, DT0=4, MAXR=1), rs=(False, True), dtm=(0, 1), view='view',
                      explore=1500, constraints=['nblk <= 3'], mc_workers=8))
    S.append(scenario('rs_np1_half', dict(NP=1, MAXITER=1, TEND=8, DT0=4, MAXR=2), rs=(False, True), dtm=(0, 1), view='view',
                      explore=1000, constraints=['nblk <= 5']))
    S.append(scenario('ml2_np2', dict(NP=2, NL=2, NSW=[2, 1], MAXITER=2, PRED='pfasst_burnin', TEND=16, DT0=4, MAXR=1),
                      rs=(False, True), view='view', explore=800, constraints=['nblk <= 3']))
    S.append(scenario('gen_np2', dict(NP=2, MAXITER=1, TEND=8, DT0=4, MAXR=1), rs=(False, True), dtm=(0, 1), view='view',
                      constraints=['nblk <= 2'], gen='all', mc=False))
    if tier == 'thorough':
        S.append(scenario('T_rs_np3_both', dict(NP=3, MAXITER=2, TEND=16, DT0=4, MAXR=2), rs=(False, True), dtm=(0, 1, 4),
                          view='view', explore=50000, constraints=['nblk <= 4'], mc_workers=12, mc_timeout=3000))
        S.append(scenario('T_rs_np4', dict(NP=4, MAXITER=1, TEND=16, DT0=4, MAXR=2), rs=(False, True), dtm=(0, 1), view='view',
                          explore=50000, constraints=['nblk <= 4'], mc_workers=12, mc_timeout=3000))
        S.append(scenario('T_rand_np5', dict(NP=5, MAXITER=3, TEND=80, DT0=4, MAXR=3), rs=(False, True), dtm=(0, 1, 4), mc=False,
                          rand=800))
    return S


def run(tier, seed):
    return run_property('C14', scenarios(tier), tier, seed)
