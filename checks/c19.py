"""C19 -- runs are reproducible, re-entrant and composable at step boundaries"""
import json
import multiprocessing as mp
import os
import random
import shutil
import tempfile

from lib import tlc
from lib.evidence import Report

KINDS = ['sdc', 'dtinit', 'hookadd', 'mssdc', 'errest', 'logs', 'etol', 'getdef', 'mlsdc', 'pfasst', 'adapt', 'adaptres', 'rand1', 'rand2']
ONESHOT = ['adapt', 'adaptres', 'rand1', 'rand2']  # step-size control: reproducible on a fresh controller (the property does not promise more)
FAM = {'sdc': 'test', 'dtinit': 'test', 'hookadd': 'test', 'mssdc': 'test', 'errest': 'test', 'logs': 'test', 'etol': 'test', 'getdef': 'test', 'mlsdc': 'heat', 'pfasst': 'heat',
       'adapt': 'vdp', 'adaptres': 'vdp', 'rand1': 'test', 'rand2': 'test'}


def enumerate_histories(wd, maxops, simulate=None, seed=0):
    os.makedirs(wd, exist_ok=True)
    with open(os.path.join(wd, 'RE.tla'), 'w') as f:
        f.write('---- MODULE RE ----\nEXTENDS Reentrancy\nmc_FAMILY == [k \\in {%s} |-> IF k \\in {"mlsdc", "pfasst"} THEN "heat" ELSE IF k \\in {"adapt", "adaptres"} THEN "vdp" ELSE "test"]\n====\n'
                % ', '.join(f'"{k}"' for k in KINDS))
    cfg = os.path.join(wd, 'RE.cfg')
    tlc.write_cfg(cfg, spec='Spec', constants=dict(KINDS='{' + ', '.join(f'"{k}"' for k in KINDS) + '}', FAMILY=('<-', 'mc_FAMILY'),
                                                   POINTS='{0, 6, 12}', NCTRL='2', MAXOPS=str(maxops),
                                                   ONESHOT='{' + ', '.join(f'"{k}"' for k in ONESHOT) + '}'),
                  invariants=['Composable', 'Export'], check_deadlock=False)
    return tlc.run_tlc('RE', cfg, workers=8, timeout=1200, spec_dir=wd, library=tlc.SPEC_DIR, simulate=simulate,
                       depth=maxops + 1 if simulate else None, seed=seed if simulate else None, heap='6g')


def _exec(h):
    from harness import reent
    try:
        return reent.execute(h['hist'])
    except Exception as e:  # noqa
        from lib.errors import describe
        return dict(error=describe(e, 400))


def run(tier, seed):
    rep = Report('C19', tier, seed)
    rep.assumptions = ['each history is executed in a freshly forked interpreter in which no controller exists yet; equal reference terms '
                       'must give bit-identical solutions (sha1 of dtype, shape, bytes) and statistics (all entries except timing types)',
                       'kinds: increment-based termination (e_tol, extra level status variables), 2 steps with a user hook reading an optional status variable with a fallback, SDC 1 step, MSSDC 3 steps Gauss-Seidel, 2 steps with EstimateEmbeddedError + LogEmbeddedErrorEstimate (extra status '
                       'variables and hooks), 2 steps with LogSolution + LogWork, MLSDC 2 levels, PFASST 2 levels x 3 steps with burn-in; fixed step '
                       'size; segments [0,6],[6,12],[0,12] in units of dt=1/16 (block aligned for every kind, exact binary floats)']
    rep.rule = ('cases = histories (New / Run operations over two controllers) enumerated by TLC; non-trivial = history in which some '
                'reference term occurs at least twice or a split run is continued')
    rng = random.Random(seed)
    scratch = tempfile.mkdtemp(prefix='verif_c19_')
    try:
        res = enumerate_histories(os.path.join(scratch, 'h4'), 4)
        rep.add_tlc(res, 'MC Reentrancy: all histories of 4 operations')
        hs = [v for v in res.prints if isinstance(v, dict) and v.get('re')]
        res2 = enumerate_histories(os.path.join(scratch, 'h6'), 6, simulate=300 if tier == 'quick' else 4000, seed=seed)
        rep.add_tlc(res2, 'GEN Reentrancy: sampled histories of 6 operations (simulation)')
        seen = {json.dumps(v['hist']): v for v in res2.prints if isinstance(v, dict) and v.get('re')}
        hs6 = list(seen.values())
        for r in (res, res2):
            if r.violation:
                rep.violation('model.' + r.violation, dict(kind='model', tlc_error=r.error_text[:3000]))
        want = 500 if tier == 'quick' else len(hs)
        if len(hs) > want:
            hs = rng.sample(hs, want)
        hs += hs6[: (200 if tier == 'quick' else 3000)]
        with mp.Pool(16, maxtasksperchild=1) as pool:
            out = pool.map(_exec, hs, chunksize=1)
        table = {}  # term -> (hash, history index)
        stable = {}
        nt = 0
        for hi, (h, o) in enumerate(zip(hs, out)):
            if isinstance(o, dict) and 'error' in o:
                rep.problem('history failed: ' + o['error'], dict(hist=h['hist']), clause='not_memoryless.unexpected_library_error')
                continue
            terms = [json.dumps(op['term']) for op in h['hist'] if op['op'] == 'run']
            if len(set(terms)) < len(terms) or any(op['op'] == 'run' and op['src'] != 0 for op in h['hist']):
                nt += 1
            for op, r in zip(h['hist'], o):
                if op['op'] != 'run':
                    continue
                if not r['input_unchanged']:
                    rep.violation('input_modified', dict(kind='reentrancy', history=h['hist'], op=op))
                if not r['still']:
                    rep.violation('result_changed_later', dict(kind='reentrancy', history=h['hist'], op=op))
                if not r.get('stats_still', True):
                    rep.violation('statistics_changed_later', dict(kind='reentrancy', history=h['hist'], op=op,
                                                                   what='the statistics returned by this run were changed by a later run'))
                for tab, key, val, name in ((table, json.dumps(op['term']), r['sol'], 'solution'),
                                            (stable, json.dumps(op['statsterm']), r['stats'], 'statistics')):
                    if key in tab and tab[key][0] != val:
                        other = hs[tab[key][1]]['hist']
                        rep.violation('not_memoryless_' + name,
                                      dict(kind='reentrancy', what=f'{name} of the same reference term differ', term=json.loads(key),
                                           history=h['hist'], other_history=other, same_history=(tab[key][1] == hi)))
                    tab.setdefault(key, (val, hi))
        rep.traces = len(hs)
        rep.evaluations = len(hs)
        rep.distinct_nontrivial = nt
        rep.cov['distinct_reference_terms'] = len(table)
        if hs:
            rep.samples.append(hs[len(hs) // 2]['hist'])
        if not hs:
            rep.machinery.append('no history enumerated')
    finally:
        shutil.rmtree(scratch, ignore_errors=True)
    return rep.finish()


def replay(path):
    d = json.load(open(path))
    from harness import reent
    a = reent.execute(d['history'])
    b = reent.execute(d['other_history']) if d.get('other_history') else None
    print(json.dumps(dict(term=d.get('term'), this=a, other=b), indent=1)[:3000])
    return 1
