"""Orchestrator for the properties decided on PfasstSerial: runs scenarios (MC + GEN + exploration + TV),
attributes every violated clause to its property, matches known findings, writes evidence."""
import json
import multiprocessing as mp
import os
import random
import shutil
import sys
import tempfile
import time

HERE = os.path.dirname(os.path.abspath(__file__))
ROOT = os.path.dirname(HERE)
sys.path.insert(0, ROOT)

from lib import tlc  # noqa: E402
from lib.evidence import Report, load_known  # noqa: E402
from harness import drive_serial as ds  # noqa: E402
from harness import explore_serial as ex  # noqa: E402
from checks import serial_engine as eng  # noqa: E402
from checks import serial_findings as sf  # noqa: E402


def scenario(name, cfg=None, res=(True, False), rs=(False,), dtm=(0,), fd=(False,), fc=(False,), mc=True,
             explore=None, gen=None, rand=0, live=False, mc_workers=4, skip_inv=(), view='viewCore', constraints=(),
             real=None, mc_timeout=900, max_len=60):
    """one scenario = one model configuration + oracle domain, explored by MC / GEN / exploration of the real code /
    random scripts / unscripted runs of real problems (real = list of dicts overriding problem, restol, ...)"""
    c = dict(ds.DEFAULT_CFG)
    c.update(cfg or {})
    return dict(name=name, cfg=c, dom=dict(res=res, rs=rs, dtm=dtm, fd=fd, fc=fc), mc=mc, explore=explore, gen=gen,
                rand=rand, live=live, mc_workers=mc_workers, skip_inv=skip_inv, view=view, constraints=constraints,
                real=real or [], mc_timeout=mc_timeout, max_len=max_len)


def run_property(prop, scenarios, tier, seed, extra_assumptions=()):
    rep = Report(prop, tier, seed)
    rep.assumptions = [
        'oracle abstraction: residual/estimator outcomes are free inputs; real numerics are not modelled here',
        'times on a dyadic lattice (exact binary floats) so that model ticks and real times are compared exactly',
        'values are compared through content hashes (sha1 of dtype, shape, bytes)',
        'recording uses public extension points only (hook class, convergence controllers at orders -100/94/199/201, '
        'sub-classes wrapping pfasst()/restart_block()/compute_residual()/compute_end_point())',
    ] + list(extra_assumptions)
    rep.rule = ('cases = complete behaviours of the real controller_nonMPI for one oracle script (exhaustive over the '
                'choice tree within the scenario bounds, plus TLC-generated and random scripts); a case is non-trivial '
                'when it is not the monotone front-to-back convergence pattern without restart (distinct by script)')
    scratch = tempfile.mkdtemp(prefix='verif_serial_')
    known = load_known()
    rng = random.Random(seed)
    nontrivial = set()
    try:
        with mp.Pool(16) as pool:
            groups = []
            mc_async = []
            mcpool = mp.pool.ThreadPool(4)
            for sc in scenarios:
                cfg, dom = sc['cfg'], sc['dom']
                oc = eng.oracle_consts(**dom)
                wd = os.path.join(scratch, sc['name'])
                if sc['mc']:
                    invs = ['TypeOK'] + [i for i in eng.ALL_INVARIANTS if eng.INV_PROPERTY.get(i) == prop and i not in sc['skip_inv']]
                    mc_async.append((sc, 'mc', mcpool.apply_async(eng.model_check, (cfg, oc, invs, wd + '_mc'),
                                                                  dict(workers=sc['mc_workers'], action_props=(['DoneStable'] if prop == 'C07' else []),
                                                                       view=sc['view'], constraints=sc['constraints'],
                                                                       timeout=sc['mc_timeout']))))
                if sc['live']:
                    mc_async.append((sc, 'live', mcpool.apply_async(eng.model_check, (cfg, oc, [], wd + '_live'),
                                                                    dict(workers=2, liveness=True))))
            tid = 0
            for sc in scenarios:
                cfg, dom = sc['cfg'], sc['dom']
                oc = eng.oracle_consts(**dom)
                wd = os.path.join(scratch, sc['name'])
                runs = []
                opts = ex.oracle_options(**dom)
                if sc['explore']:
                    t0 = time.time()
                    got, trunc = ex.explore(cfg, opts, pool, max_runs=sc['explore'], seed=seed, max_len=sc['max_len'])
                    for r in got:
                        tid += 1
                        r['tid'] = tid
                        r['origin'] = 'explore'
                    runs += got
                    rep.cov.setdefault('explore', []).append(dict(scenario=sc['name'], runs=len(got), exhaustive=not trunc,
                                                                  wall_s=round(time.time() - t0, 1)))
                if sc['gen']:
                    gens, gres = eng.generate(cfg, oc, wd + '_gen', workers=4,
                                              simulate=None if sc['gen'] == 'all' else sc['gen'], seed=seed,
                                              constraints=sc['constraints'])
                    rep.add_tlc(gres, f"GEN {sc['name']}")
                    if not gres.ok and not gens:
                        rep.machinery.append(f"GEN {sc['name']} failed: {gres.violation} {gres.error_text[:300]}")
                    if len(gens) > 1500:  # replay a seeded sample of the enumerated behaviours
                        gens = rng.sample(gens, 1500)
                    got = eng.replay_scripts(cfg, gens, pool, tid0=tid)
                    for r in got:
                        r['origin'] = 'tlc-gen'
                    tid += len(got)
                    runs += got
                    rep.cov.setdefault('gen', []).append(dict(scenario=sc['name'], behaviours=len(gens)))
                if sc['rand']:
                    scripts = eng.random_scripts(cfg, opts, sc['rand'], rng)
                    jobs = []
                    for s_ in scripts:
                        tid += 1
                        jobs.append((cfg, s_, tid))
                    got = pool.map(_rand_job, jobs, chunksize=4)
                    for r in got:
                        r['origin'] = 'random'
                    runs += got
                for extra in sc['real']:
                    tid += 1
                    r = ds.run_one(dict(cfg, **extra), None, tid=tid)
                    r['origin'] = 'real-problem'
                    r['cfg'] = cfg
                    runs.append(r)
                good = []
                for r in runs:
                    if r['errors']:
                        rep.cov['offlattice_runs'] = rep.cov.get('offlattice_runs', 0) + 1
                        continue
                    if r['exc'] == 'ScriptExhausted':
                        rep.cov['exhausted_runs'] = rep.cov.get('exhausted_runs', 0) + 1
                        continue
                    good.append(r)
                    sig = json.dumps([ds.cfg_key(cfg), r['script']])
                    if any((not o.get('res')) or o.get('rs') or o.get('fd') or o.get('fc') or o.get('dtm') or o.get('dtn')
                           for o in (r['script'] or [])):
                        nontrivial.add(hash(sig))
                if good:
                    groups.append((cfg, good))
            # trace validation of everything recorded
            verdicts, summaries, problems = eng.validate_runs(groups, scratch, pool)
            for s_ in summaries:
                rep.states += s_['distinct']
                rep.transitions += s_['generated']
            rep.cov['tv_batches'] = len(summaries)
            rep.machinery += problems
            rep.traces = len(verdicts)
            rep.evaluations = len(verdicts)
            rep.distinct_nontrivial = len(nontrivial)
            clause_counts = {}
            foreign = {}
            for (ck, t), (cfg, run, v) in verdicts.items():
                for ln, clause in v['viol']:
                    p = eng.CLAUSE_PROPERTY.get(clause, '?')
                    if p == '?' and ('unattributed clause ' + clause) not in rep.machinery:
                        # a clause of the trace specification that no property claims would be ignored silently
                        rep.machinery.append('unattributed clause ' + clause)
                    clause_counts[clause] = clause_counts.get(clause, 0) + 1
                    if p != prop:
                        foreign[clause] = foreign.get(clause, 0) + 1
                        continue
                    fid = sf.match(known, prop, clause, cfg, run, ln)
                    if fid:
                        n, text = rep.known.get(fid[0], (0, fid[1]))
                        rep.known[fid[0]] = (n + 1, fid[1])
                    else:
                        rep.violation(clause, dict(kind='trace', property=prop, clause=clause, line=ln, cfg=cfg,
                                                   script=run['script'], origin=run.get('origin'),
                                                   trace_line=run['ev'][ln - 1] if 0 < ln <= len(run['ev']) else None))
            rep.cov['clause_counts'] = clause_counts
            rep.cov['other_property_clauses_seen'] = foreign
            if verdicts:
                (ck, t), (cfg, run, v) = next(iter(verdicts.items()))
                rep.samples.append(dict(cfg=cfg, script=(run['script'] or [])[:12], verdict=v, first_lines=[
                    {k: ln[k] for k in ('k', 'sg', 'stage', 'iter', 'done', 'nact', 'time', 'dt') if k in ln}
                    for ln in run['ev'][:6]]))
            # model checking results
            for sc, kind, fut in mc_async:
                res = fut.get()
                rep.add_tlc(res, f"{kind.upper()} {sc['name']}")
                if res.timed_out:
                    rep.machinery.append(f"{kind} {sc['name']} timed out")
                    continue
                if res.violation:
                    handle_mc_violation(rep, prop, known, sc, kind, res, scratch)
                elif not res.ok:
                    rep.machinery.append(f"{kind} {sc['name']} did not complete: {res.raw[-400:]}")
            mcpool.close()
            # vacuity: every action of the specification must have been taken
            kinds = {}
            for (ck, t), (cfg, run, v) in verdicts.items():
                for ln in run['ev']:
                    k = ln['k'] + (':' + ln['sg'] if ln['k'] == 'st' else '')
                    kinds[k] = kinds.get(k, 0) + 1
            rep.cov['trace_actions'] = kinds
            if verdicts:
                for a in ('rb', 'st:SPREAD', 'st:IT_CHECK', 'end'):
                    if kinds.get(a, 0) == 0:
                        rep.machinery.append(f'vacuous: no trace line of kind {a}')
    finally:
        shutil.rmtree(scratch, ignore_errors=True)
    return rep.finish()


def _rand_job(args):
    cfg, script, tid = args
    return ds.run_one(cfg, script, tid=tid, default=dict(res=True))


def handle_mc_violation(rep, prop, known, sc, kind, res, scratch):
    """an invariant of the model is violated: replay the counterexample on the real code, classify"""
    inv = res.violation
    p = eng.INV_PROPERTY.get(inv, '?')
    if kind == 'live':
        inv, p = 'Terminates', 'C07'
    script = eng.counterexample_script(res)
    info = dict(kind='model', property=p, invariant=inv, cfg=sc['cfg'], scenario=sc['name'], script=script,
                tlc_error=res.error_text[:6000])
    rep.cov.setdefault('mc_violations', []).append(dict(scenario=sc['name'], invariant=inv, property=p))
    if p != prop:
        return
    confirmed = None
    if script is not None:
        run = ds.run_one(sc['cfg'], [dict(o) for o in script], tid=1, default=dict(res=True))
        v, tres = ds.validate_batch(sc['cfg'], [run], os.path.join(scratch, 'cex_' + sc['name'] + inv))
        vv = v.get(1)
        info['real_run_verdict'] = vv
        info['real_script'] = run['script']
        if vv is not None:
            mine = [(ln, c) for ln, c in vv['viol'] if eng.CLAUSE_PROPERTY.get(c) == prop]
            confirmed = bool(mine)
            if confirmed:
                fids = [sf.match(known, prop, c, sc['cfg'], run, ln) for ln, c in mine]
                if all(fids):
                    for fid in fids:
                        n, text = rep.known.get(fid[0], (0, fid[1]))
                        rep.known[fid[0]] = (n + 1, fid[1])
                    return
    fid = sf.match_model(known, prop, inv, sc['cfg'], script)
    if fid and confirmed is not False:
        n, text = rep.known.get(fid[0], (0, fid[1]))
        rep.known[fid[0]] = (n + 1, fid[1])
        return
    if confirmed is False:
        rep.machinery.append(f"model invariant {inv} violated in {sc['name']} but the real code does not reproduce it "
                             f"(model/implementation divergence)")
        return
    rep.violation('model.' + inv, info)
