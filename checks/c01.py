"""C01 -- converged SDC/MLSDC/PFASST returns the fine collocation solution (exact over Z_p).
  * model: a fixed point of ANY sweep (arbitrary lower-triangular preconditioners) has zero defect and vice versa
    (SdcAlgebraMC FixedPointOK, exhaustive over Z_3); a down-up cycle preserves it (C10)
  * binding: complete runs of the real controller_nonMPI on Z_p with nilpotent operators converge exactly; TLC
    (TraceSdcAlgebra, mode "run") checks for every step: defect zero, node values = THE solution of the fine collocation
    problem found by brute force, end value, chaining, returned and logged values -- for every preconditioner, predictor,
    number of levels / steps, coupling mode, sweeps per level in the family."""
import copy
import json
import multiprocessing as mp
import os
import random
import shutil
import tempfile

from lib.evidence import Report
from checks import algebra as alg


def _run_job(args):
    cid, cfg = args
    from harness import zp_runs
    try:
        out = zp_runs.run(cfg)
        return dict(id=cid, mode='run', inst=cfg['levels'][0], nsteps=cfg['nsteps'], u_init=cfg['u_init'], maxiter=cfg['maxiter'], out=out,
                    meta={k: (cfg[k] if cfg[k] is not None else 'none') for k in ('P', 'kind', 'NP', 'NL', 'pred', 'jac', 'nsweeps')})
    except Exception as e:  # noqa
        import traceback
        # an error raised by pySDC itself on a legal configuration is an outcome of the run (these configurations have nilpotent
        # operators: no solve is singular, every variant converges); anything else is a failure of the harness
        from lib.errors import origin
        lib = type(e).__module__.startswith('pySDC') or origin(e) == 'library'
        return dict(id=cid, error=f'{type(e).__name__}: {e} {traceback.format_exc()[-400:]}', cfg=cfg, library_error=type(e).__name__ if lib else None)


def family(rng, P):
    """one fine problem, several ways of solving it"""
    from harness import zp_runs
    base = zp_runs.random_run_config(rng, P)
    fam = [base]
    for _ in range(3):
        v = zp_runs.random_run_config(rng, P)
        if v['kind'] != base['kind']:
            v['kind'] = base['kind']
            for L in v['levels']:
                L['kind'] = base['kind']
                if base['kind'] == 'impl':
                    L['B'] = [[0] * L['n'] for _ in range(L['n'])]
                    L['QE'] = [[0] * L['M'] for _ in range(L['M'])]
                if base['kind'] == 'expl':
                    L['QI'] = [[0] * L['M'] for _ in range(L['M'])]
                    L['QE'] = [[rng.randrange(P) if j < i else 0 for j in range(L['M'])] for i in range(L['M'])]
                if base['kind'] == 'imex':
                    L['QI'] = [[rng.randrange(P) if j <= i else 0 for j in range(L['M'])] for i in range(L['M'])]
                    L['QE'] = [[rng.randrange(P) if j < i else 0 for j in range(L['M'])] for i in range(L['M'])]
        # same fine collocation problem: Q, weights, operators, dt, u_init, nsteps; preconditioners and everything else differ
        f0, b0 = v['levels'][0], base['levels'][0]
        for k in ('M', 'n', 'Q', 'w', 'A', 'B', 'c', 'dt', 'rightnode', 'collupdate', 'tn', 'g'):
            f0[k] = copy.deepcopy(b0[k])
        f0['leftnode'] = bool(b0.get('leftnode', False))
        M = f0['M']
        f0['QI'] = [[0] * M for _ in range(M)] if base['kind'] == 'expl' else [[rng.randrange(P) if j <= i else 0 for j in range(M)] for i in range(M)]
        f0['QE'] = [[0] * M for _ in range(M)] if base['kind'] == 'impl' else [[rng.randrange(P) if j < i else 0 for j in range(M)] for i in range(M)]
        for L in v['levels']:
            L['dt'] = b0['dt']
        for l, t in enumerate(v['transfers']):
            Mf, Mc = v['levels'][l]['M'], v['levels'][l + 1]['M']
            if Mc > Mf:
                v['levels'][l + 1]['M'] = Mf
                Lc = v['levels'][l + 1]
                for k in ('Q', 'QI', 'QE'):
                    Lc[k] = [row[:Mf] for row in Lc[k][:Mf]]
                Lc['w'] = list(Lc['Q'][Mf - 1])
                Lc['tn'] = [0] * Mf
                Mc = Mf
            Rc = [[rng.randrange(P) for _ in range(Mf)] for _ in range(Mc)]
            for row in Rc:
                row[-1] = (1 - sum(row[:-1])) % P
            Rc[-1] = [0] * (Mf - 1) + [1]
            t['Rc'] = Rc
            t['Pc'] = [[rng.randrange(P) for _ in range(Mc)] for _ in range(Mf)]
        if not f0['rightnode'] and v['NL'] > 1 and v['NP'] > 1:
            v['NP'] = 1  # PFASST needs the right end point as a node; the multi-level variant of such a problem is MLSDC
        v['u_init'] = list(base['u_init'])
        v['nsteps'] = base['nsteps']
        fam.append(v)
    return fam


def run(tier, seed):
    rep = Report('C01', tier, seed)
    rep.assumptions = [
        'exact over Z_p: "iterated to the residual tolerance" = "defect exactly zero"; the floating-point clause "up to a small '
        'multiple of the tolerance" (conditioning) is not addressed',
        'operators are strictly triangular (nilpotent) so that every variant converges in finitely many iterations over a finite field; '
        'the fixed-point clauses of the model are checked for arbitrary operators',
        'node restriction matrices satisfy H1 (rows sum to one) and H2 (last row = unit vector of the last fine node): what pySDC\'s '
        'Lagrange matrices between node sets containing the right end point provide',
        'sweepers generic_implicit / imex_1st_order / explicit; BaseTransfer with Z_p matrices; controller_nonMPI unchanged']
    rep.rule = ('cases = complete runs (family = one fine collocation problem solved with different preconditioners, levels, predictors, '
                'parallel steps, coupling modes, sweeps); non-trivial = every step converged and more than one iteration was needed')
    rng = random.Random(seed)
    scratch = tempfile.mkdtemp(prefix='verif_c01_')
    try:
        with mp.Pool(16) as pool:
            c = alg.consts(3, 'sweep', ['impl'], [1, 2], [1], [1, 2], False, False, False, taus=['none'] if tier == 'quick' else ['none', 'any'])
            mc1 = alg.submit(pool, os.path.join(scratch, 'mc1'), c, ['FixedPointOK', 'EndPointConsistent'], workers=4, timeout=3000)
            c2 = alg.consts(3, 'sweep', ['imex', 'expl'], [1], [1], [1, 2], False, False, True)
            mc2 = alg.submit(pool, os.path.join(scratch, 'mc2'), c2, ['FixedPointOK'], workers=4, timeout=3000)
            cfgs = []
            nfam = 60 if tier == 'quick' else 700
            for k in range(nfam):
                cfgs += family(rng, rng.choice([3, 5]))
            out = pool.map(_run_job, [(i + 1, cfg) for i, cfg in enumerate(cfgs)], chunksize=4)
            errs = [o for o in out if 'error' in o]
            for e in [x for x in errs if not x.get('library_error')][:5]:
                rep.machinery.append('run failed: ' + e['error'])
            for e in [x for x in errs if x.get('library_error')]:
                rep.violation('run.unexpected_error', dict(kind='run', what='the run raised ' + e['library_error'], detail=e['error'][:300], cfg=e['cfg']))
            cases = [o for o in out if 'error' not in o]
            byP = {}
            for cse in cases:
                byP.setdefault(cse['meta']['P'], []).append(cse)
            nontrivial = 0
            conv_count = 0
            for P, cs in byP.items():
                chunks = [cs[i::16] for i in range(16)]
                res = pool.map(alg._tv_validate_job, [(os.path.join(scratch, f'tv{P}_{k}'), P, ch) for k, ch in enumerate(chunks) if ch], chunksize=1)
                verdicts = {}
                for v, s, raw in res:
                    verdicts.update(v)
                    rep.states += s['distinct']
                    rep.transitions += s['generated']
                    if raw:
                        rep.machinery.append('TLC did not return all verdicts: ' + raw[-400:])
                for cse in cs:
                    v = verdicts.get(cse['id'])
                    if v is None:
                        continue
                    rep.traces += 1
                    steps = cse['out']['steps']
                    conv = all(s['res'] == 0 and s['niter'] < cse['maxiter'] for s in steps)
                    conv_count += conv
                    if conv and any(s['niter'] > 1 for s in steps):
                        nontrivial += 1
                    for clause in v[:1]:
                        rep.violation('run.' + clause.split('.')[-1], dict(kind='zp-run', P=P, clause=clause, all=v, case=cse))
            rep.cov['runs_converged'] = conv_count
            rep.cov['runs'] = len(cases)
            if cases and conv_count < 0.8 * len(cases):
                rep.machinery.append(f'vacuity: only {conv_count} of {len(cases)} runs converged')
            if cases:
                rep.samples.append(dict(meta=cases[0]['meta'], steps=cases[0]['out']['steps'][:2]))
            for lab, fut in (('FixedPointOK impl', mc1), ('FixedPointOK imex/expl', mc2)):
                r = fut.get()
                rep.add_tlc(r, 'MC ' + lab)
                if r.violation:
                    rep.violation('model.' + r.violation, dict(kind='model', label=lab, tlc_error=r.error_text[:4000]))
                elif not r.ok:
                    rep.machinery.append(f'MC {lab} did not complete: {r.raw[-300:]}')
            rep.evaluations = rep.traces
            rep.distinct_nontrivial = nontrivial
    finally:
        shutil.rmtree(scratch, ignore_errors=True)
    return rep.finish()


def replay(path):
    d = json.load(open(path))
    print(json.dumps({k: d[k] for k in d if k != 'case'}, indent=1)[:1500])
    print(json.dumps(d.get('case', {}).get('meta')), json.dumps(d.get('case', {}).get('out', {}).get('steps'))[:1500])
    return 1
