"""C08 -- MPI-parallel variants equal their serial counterparts under every schedule
  (1) PfasstMPI.tla over SimMPI.tla: exhaustive interleavings of ranks and completion timings of one block of the MPI
      controller (single level): no deadlock, no orphan message, finishing in order, iteration counts = serial reference
  (2) the REAL controller_MPI (with the MPI flavours of CheckConvergence / BasicRestarting / SpreadStepSizes) runs on a
      deterministic simulated mpi4py under seeded schedules and matching policies; every event log is validated by TLC
      against the message-layer rules (TraceSimMPI) and every outcome is compared with the real serial controller."""
import os
import sys

_SIM = os.path.join(os.path.dirname(os.path.dirname(os.path.abspath(__file__))), 'harness', 'simmpi')
if _SIM not in sys.path:
    sys.path.insert(0, _SIM)

import json  # noqa: E402
import multiprocessing as mp  # noqa: E402
import random  # noqa: E402
import shutil  # noqa: E402
import tempfile  # noqa: E402

from lib import tlc  # noqa: E402
from lib.evidence import Report, load_known  # noqa: E402


def mc_protocol(wd, N, maxiter, live=False, jac=True, simulate=None):
    os.makedirs(wd, exist_ok=True)
    cfg = os.path.join(wd, 'PM.cfg')
    J = 'TRUE' if jac else 'FALSE'
    if live:
        tlc.write_cfg(cfg, spec='FairSpec', constants=dict(N=str(N), MAXITER=str(maxiter), JAC=J), properties=['Terminates'], check_deadlock=True)
    else:
        tlc.write_cfg(cfg, spec='Spec', constants=dict(N=str(N), MAXITER=str(maxiter), JAC=J),
                      invariants=['TypeOK', 'ScheduleIndependence', 'FinishInOrder', 'NoOrphan'], check_deadlock=True)
    if simulate:
        # (4 ranks with 2 iterations have more than 2.5e8 distinct states: sampled behaviours instead of the exhaustive search)
        return tlc.run_tlc('PfasstMPI', cfg, workers=8, timeout=3000, heap='8g', simulate=simulate, depth=600, seed=1)
    return tlc.run_tlc('PfasstMPI', cfg, workers=8, timeout=3000, heap='12g')


def _mc_job(args):
    return mc_protocol(*args)


def _run_job(args):
    cfg, sched_seed, policy, rid = args
    from harness import mpi_runs
    try:
        m = mpi_runs.run_mpi(cfg, sched_seed=sched_seed, policy=policy)
    except Exception as e:  # noqa
        from lib.errors import describe
        return dict(rid=rid, error=describe(e, 400), cfg=cfg, sched_seed=sched_seed, policy=policy)
    return dict(rid=rid, cfg=cfg, sched_seed=sched_seed, policy=policy, mpi=m)


def _serial_job(cfg):
    from harness import mpi_runs
    return mpi_runs.run_serial(cfg)


def _tv_job(args):
    wd, runs = args
    os.makedirs(wd, exist_ok=True)
    tf = os.path.join(wd, 't.json')
    with open(tf, 'w') as f:
        json.dump(dict(runs=runs), f)
    cfg = os.path.join(wd, 'T.cfg')
    tlc.write_cfg(cfg, spec='Spec', check_deadlock=False)
    res = tlc.run_tlc('TraceSimMPI', cfg, workers=1, timeout=1200, env_extra={'TRACE_FILE': tf})
    v = {x['tid']: x['viol'] for x in res.prints if isinstance(x, dict) and 'tid' in x}
    return v, res.summary(), ('' if len(v) == len(runs) else res.raw[-800:])


def _map_timeout(pool, fn, items, timeout, on_timeout):
    futs = [pool.apply_async(fn, (it,)) for it in items]
    out = []
    for it, f in zip(items, futs):
        try:
            out.append(f.get(timeout=timeout))
        except mp.TimeoutError:
            out.append(on_timeout(it))
    return out


def configs(tier, rng):
    C = []
    base = dict(T0=0, DT0=4, MAXITER=3)
    for NP in (1, 2, 3, 4) if tier == 'quick' else (1, 2, 3, 4, 5):
        for jac in (True, False):
            C.append(dict(base, NP=NP, NL=1, TEND=4 * 2 * NP, JAC=jac, seed=rng.randint(0, 999), pconv=45))
    for NP in (2, 3):
        for pred in (None, 'fine_only', 'pfasst_burnin'):
            C.append(dict(base, NP=NP, NL=2, TEND=4 * 2 * NP, PRED=pred, seed=rng.randint(0, 999), pconv=45))
    C.append(dict(base, NP=3, NL=3, NSW=[1, 2, 1], TEND=24, PRED='pfasst_burnin', seed=rng.randint(0, 999), pconv=40))
    C.append(dict(base, NP=3, NL=1, TEND=24, A2D=True, seed=rng.randint(0, 999), pconv=45))
    # Tend not a multiple of the block length: the communicator is split near Tend
    C.append(dict(base, NP=3, NL=1, TEND=4 * 4, seed=rng.randint(0, 999), pconv=60))
    C.append(dict(base, NP=4, NL=2, TEND=4 * 6, PRED='pfasst_burnin', seed=rng.randint(0, 999), pconv=60))
    # restarts and step-size changes
    for NP in (2, 3, 4):
        for rff in (False, True):
            C.append(dict(base, NP=NP, NL=1, TEND=4 * 2 * NP, JAC=False, RFF=rff, MAXR=3, seed=rng.randint(0, 999), pconv=50, prs=25, pdt=40))
    # restart_from_first_step with all steps finishing in the same pass (no rank waits at the block end while others iterate:
    # the known collective mismatch of that mode cannot occur, so the restart decisions themselves are compared)
    for NP in (2, 3):
        for maxr in (1, 2):
            C.append(dict(base, MAXITER=1, NP=NP, NL=1, TEND=4 * 4 * NP, JAC=False, RFF=True, MAXR=maxr, CRASH=(NP + maxr) % 2 == 0,
                          seed=rng.randint(0, 999), pconv=100, prs=50, pdt=0))
    C.append(dict(base, NP=3, NL=2, TEND=24, PRED='pfasst_burnin', MAXR=2, CRASH=False, seed=rng.randint(0, 999), pconv=50, prs=30, pdt=40))
    # real residuals, scripted restarts / step-size changes (step sizes leave the dyadic lattice: times agree up to rounding only)
    for NP in (3, 4):
        C.append(dict(base, NP=NP, NL=1, TEND=4 * (NP + 2), MAXITER=8, JAC=NP == 3, MAXR=12, CRASH=False, oracle='restarts_only', restol=1e-7,
                      prs=30, pdt=70, seed=rng.randint(0, 999)))
    C.append(dict(base, NP=4, NL=1, TEND=24, MAXITER=12, MAXR=12, CRASH=False, oracle='restarts_only', restol=1e-9, prs=0, pdt=0, seed=1,
                  forced=[[16, 0, 2]]))
    # space-time parallel: NP ranks in time x NODES ranks across the collocation nodes (node-parallel sweeper / transfer under the
    # MPI controller); Gauss-Seidel coupling keeps sends pending across sweeps
    C.append(dict(base, NP=2, NL=1, NODES=2, TEND=16, MAXITER=8, JAC=False, oracle=False, restol=1e-8, seed=0))
    C.append(dict(base, NP=2, NL=1, NODES=3, TEND=16, MAXITER=8, JAC=True, oracle=False, restol=1e-8, seed=0))
    C.append(dict(base, NP=3, NL=1, NODES=2, TEND=24, JAC=False, seed=rng.randint(0, 999), pconv=45))
    C.append(dict(base, NP=2, NL=2, NODES=2, TEND=16, MAXITER=8, PRED='pfasst_burnin', oracle=False, restol=1e-7, seed=0))
    # real residuals instead of the oracle
    C.append(dict(base, NP=3, NL=1, TEND=24, MAXITER=8, oracle=False, restol=1e-6, seed=0))
    C.append(dict(base, NP=3, NL=2, TEND=24, MAXITER=8, PRED='pfasst_burnin', oracle=False, restol=1e-7, seed=0))
    if tier == 'thorough':
        extra = []
        for c in C:
            for k in range(3):
                extra.append(dict(c, seed=rng.randint(0, 9999)))
        C += extra
    return C


def compare(cfg, ser, m):
    """differences between the serial run and one MPI run (discrete quantities exactly, values bit-wise)"""
    d = []
    if 'ConvergenceError' in (m.get('all_exc') or []):
        # a rank surrendered (too many restarts): the job is aborted; what the other ranks were blocked in does not matter
        if ser['exc'] != 'ConvergenceError':
            d.append(('exception', f"serial {ser['exc']} / MPI ConvergenceError"))
        return d
    if m.get('deadlock'):
        d.append(('deadlock', str(m.get('msg') or m.get('failed'))[:200]))
        return d
    if m.get('node_ranks_disagree'):
        d.append(('node_ranks_disagree', 'the ranks that share one time step do not report the same steps / values'))
    if (ser['exc'] or 'none') != (m['exc'] or 'none'):
        d.append(('exception', f"serial {ser['exc']} / MPI {m['exc']} {m.get('msg', '')[:150]}"))
        return d
    if ser['exc']:
        return d
    sa = [s for s in ser['steps'] if not s['restart']]
    ma = [s for s in m['steps'] if not s['restart']]
    import math

    def close(a, b):  # the property compares step times up to rounding
        return abs(a - b) <= 4 * math.ulp(max(abs(a), abs(b), 1e-300))

    if len(sa) != len(ma) or any(not close(a['t'], b['t']) or not close(a['dt'], b['dt']) for a, b in zip(sa, ma)):
        d.append(('step_times', f"serial {[(s['t'], s['dt']) for s in sa][:8]} / MPI {[(s['t'], s['dt']) for s in ma][:8]}"))
        return d
    if [s['niter'] for s in sa] != [s['niter'] for s in ma]:
        d.append(('iteration_counts', f"serial {[s['niter'] for s in sa]} / MPI {[s['niter'] for s in ma]}"))
    sr = sorted((s['t'], s['dt'], s['riar']) for s in ser['steps'] if s['restart'])
    mr = sorted((s['t'], s['dt'], s['riar']) for s in m['steps'] if s['restart'])
    if len(sr) != len(mr) or any(not close(a[0], b[0]) or not close(a[1], b[1]) for a, b in zip(sr, mr)):
        d.append(('restarts', f'serial {sr[:6]} / MPI {mr[:6]}'))
    elif [x[2] for x in sr] != [x[2] for x in mr]:
        d.append(('restart_counters', f'serial {sr[:6]} / MPI {mr[:6]}'))
    if [s['uend'] for s in sa] != [s['uend'] for s in ma]:
        d.append(('step_values', 'end values of accepted steps differ'))
    if any(u != ser['uend'] for u in m['uends']):
        d.append(('returned_value', f"serial {ser['uend']} / MPI ranks {m['uends']}"))
    return d


def run(tier, seed):
    rep = Report('C08', tier, seed)
    rep.assumptions = [
        'simulated mpi4py (harness/simmpi): every rank is a thread that runs only while it holds the baton; matching / completion of '
        'non-blocking operations is a scheduler decision (policies eager / lazy / random, seeded); synchronous-mode completion for all '
        'sends (worst case); it stands in for a real MPI library and is itself checked against SimMPI.tla through its event log',
        'time-parallel controller and the MPI flavours of CheckConvergence, BasicRestarting, SpreadStepSizesBlockwise; node-parallel sweepers '
        'and base_transfer_MPI with one simulated rank per collocation node (same number of nodes on all levels, as the classes require); '
        'the interrupt-based iteration estimator is excluded by the property',
        'collectives: a non-root of a rooted reduction and the root of a broadcast may return before the other ranks arrive (scheduler decision)',
        'PfasstMPI.tla models one block, single level, Jacobi coupling']
    rep.rule = ('cases = (configuration, schedule seed, matching policy) runs of the real controller_MPI; non-trivial = more than one rank '
                'and at least one message matched; distinct by event log')
    rng = random.Random(seed)
    known = load_known()
    scratch = tempfile.mkdtemp(prefix='verif_c08_')
    try:
        with mp.Pool(16) as pool:
            mcs = [('N=3 maxiter=2', (os.path.join(scratch, 'pm1'), 3, 2, False)), ('N=2 maxiter=3', (os.path.join(scratch, 'pm2'), 2, 3, False)),
                   ('liveness N=2 maxiter=2', (os.path.join(scratch, 'pm3'), 2, 2, True)),
                   ('Gauss-Seidel N=3 maxiter=2', (os.path.join(scratch, 'pm7'), 3, 2, False, False)),
                   ('Gauss-Seidel liveness N=2 maxiter=2', (os.path.join(scratch, 'pm8'), 2, 2, True, False))]
            if tier == 'thorough':
                mcs += [('N=4 maxiter=1', (os.path.join(scratch, 'pm4'), 4, 1, False)),
                        ('N=4 maxiter=2 (20000 sampled behaviours)', (os.path.join(scratch, 'pm4s'), 4, 2, False, True, 20000)), ('N=3 maxiter=3', (os.path.join(scratch, 'pm5'), 3, 3, False)),
                        ('liveness N=3 maxiter=2', (os.path.join(scratch, 'pm6'), 3, 2, True))]
            mc_async = [(lab, pool.apply_async(_mc_job, (a,))) for lab, a in mcs]
            C = configs(tier, rng)
            serial = _map_timeout(pool, _serial_job, C, 120, lambda cfg: dict(exc='Timeout', msg='serial run did not finish within 120 s'))
            jobs = []
            nsched = 6 if tier == 'quick' else 40
            for ci, cfg in enumerate(C):
                for k in range(nsched if cfg['NP'] > 1 else 1):
                    jobs.append((cfg, rng.randint(0, 10 ** 6), ['random', 'eager', 'lazy'][k % 3], len(jobs) + 1))
            out = _map_timeout(pool, _run_job, jobs, 180, lambda a: dict(rid=a[3], error='MPI run did not finish within 180 s'))
            runs = []
            sigs = set()
            for (cfg, ss, pol, rid), o in zip(jobs, out):
                if 'error' in o:
                    rep.problem('MPI run failed: ' + o['error'], dict(kind='mpi-vs-serial', cfg=cfg, sched_seed=ss, policy=pol), clause='equal.unexpected_library_error')
                    continue
                ci = C.index(cfg)
                diffs = compare(cfg, serial[ci], o['mpi'])
                o['diffs'] = diffs
                o['serial'] = serial[ci]
                runs.append(o)
                for name, text in diffs:
                    fid = match_known(known, name, cfg, serial[ci], o['mpi'])
                    if fid:
                        n, t = rep.known.get(fid[0], (0, fid[1]))
                        rep.known[fid[0]] = (n + 1, fid[1])
                    else:
                        rep.violation('equal.' + name, dict(kind='mpi-vs-serial', what=name, detail=text, cfg=cfg, sched_seed=ss, policy=pol,
                                                            serial_steps=serial[ci].get('steps'), mpi_steps=o['mpi'].get('steps')))
                if cfg['NP'] > 1 and any(e['k'] == 'match' for e in o['mpi']['events']):
                    sigs.add(hash(json.dumps([(e['r'], e['k']) for e in o['mpi']['events']])))
            # trace validation of the event logs
            tv_runs = [dict(tid=o['rid'], nlevels=o['cfg']['NL'], status_tags=[200, 95, 100, 50], ev=o['mpi']['events']) for o in runs]
            chunks = [tv_runs[i::16] for i in range(16)]
            res = pool.map(_tv_job, [(os.path.join(scratch, f'tv{k}'), ch) for k, ch in enumerate(chunks) if ch], chunksize=1)
            verdicts = {}
            for v, s, raw in res:
                verdicts.update(v)
                rep.states += s['distinct']
                rep.transitions += s['generated']
                if raw:
                    rep.machinery.append('TraceSimMPI did not return all verdicts: ' + raw[-400:])
            byrid = {o['rid']: o for o in runs}
            for rid, viol in verdicts.items():
                rep.traces += 1
                for ln, clause in viol[:2]:
                    o = byrid[rid]
                    if 'ConvergenceError' in (o['mpi'].get('all_exc') or []) and clause in ('mpi.deadlock', 'mpi.orphan_send', 'mpi.unmatched_receive'):
                        continue  # leftovers of a job aborted by ConvergenceError
                    fid = match_known(known, clause, o['cfg'], o['serial'], o['mpi'])
                    if fid:
                        n, t = rep.known.get(fid[0], (0, fid[1]))
                        rep.known[fid[0]] = (n + 1, fid[1])
                        continue
                    rep.violation(clause, dict(kind='mpi-trace', clause=clause, line=ln, cfg=o['cfg'], sched_seed=o['sched_seed'], policy=o['policy'],
                                               event=o['mpi']['events'][ln - 1] if 0 < ln <= len(o['mpi']['events']) else None))
            rep.evaluations = rep.traces
            rep.distinct_nontrivial = len(sigs)
            rep.cov['configurations'] = len(C)
            rep.cov['schedules_per_configuration'] = nsched
            rep.cov['events_validated'] = sum(len(o['mpi']['events']) for o in runs)
            if runs:
                o = runs[len(runs) // 2]
                rep.samples.append(dict(cfg=o['cfg'], policy=o['policy'], sched_seed=o['sched_seed'], first_events=o['mpi']['events'][:10],
                                        steps=o['mpi']['steps'][:4]))
            from checks import c08_nodepar
            c08_nodepar.run_part(rep, pool, scratch, tier, rng)
            for lab, fut in mc_async:
                r = fut.get()
                rep.add_tlc(r, 'MC PfasstMPI ' + lab)
                if r.violation:
                    rep.violation('model.' + r.violation, dict(kind='model', label=lab, tlc_error=r.error_text[:5000]))
                elif not r.ok:
                    rep.machinery.append(f'PfasstMPI {lab} did not complete: {r.raw[-300:]}')
    finally:
        shutil.rmtree(scratch, ignore_errors=True)
    return rep.finish()


def match_known(known, name, cfg, ser, m):
    for f in known.get('findings', []):
        if f['property'] != 'C08' or name not in f.get('clauses', []):
            continue
        pred = f.get('predicate')
        if pred == 'max_restart_scope' and max_restart_scope(cfg, ser, m):
            return (f['id'], f['text'])
        if pred == 'rff_collectives' and cfg.get('RFF') and 'collective mismatch' in (str(m.get('failed')) + str(m.get('msg'))):
            return (f['id'], f['text'])
    return None


def max_restart_scope(cfg, ser, m):
    """the runs agree up to a block whose first step has used up its restart budget (restarts_in_a_row >= max_restarts) and is
    accepted, after which some later step of a block is restarted in one run and not in the other"""
    maxr = cfg.get('MAXR', 3)
    a, b = ser.get('steps') or [], m.get('steps') or []
    key = lambda s: (s['t'], s['dt'], s['niter'], s['restart'], s['riar'], s['slot'])  # noqa
    a = sorted(a, key=lambda s: (s['t'], s['riar'], s['slot'], s['dt'], s['niter']))
    b = sorted(b, key=lambda s: (s['t'], s['riar'], s['slot'], s['dt'], s['niter']))
    # first difference
    i = 0
    while i < min(len(a), len(b)) and key(a[i]) == key(b[i]):
        i += 1
    if i >= min(len(a), len(b)):
        return False
    x, y = a[i], b[i]
    # same step state, only the restart verdict differs, and a first step at its budget was accepted just before
    same_state = (x['t'], x['dt'], x['riar']) == (y['t'], y['dt'], y['riar'])
    budget_first = any(s['slot'] == 0 and s['riar'] >= maxr and not s['restart'] and s['t'] <= x['t'] for s in a[:i + 1] + b[:i + 1])
    return bool(same_state and x['restart'] != y['restart'] and x['slot'] > 0 and budget_first)


def riar_clobber(cfg, ser, m):
    """serial and MPI runs agree until a block ends with a restart at a slot >= 1 whose restarts_in_a_row was > 0"""
    steps = ser.get('steps') or []
    return any(s['restart'] and s['slot'] >= 1 and s['riar'] > 0 for s in steps) or any(
        s['restart'] and s['slot'] >= 1 and s['riar'] > 0 for s in (m.get('steps') or []))


def replay(path):
    d = json.load(open(path))
    if d.get('kind') in ('nodepar-op', 'nodepar-run'):
        from checks import c08_nodepar
        if d['kind'] == 'nodepar-op':
            o = c08_nodepar._op_job((1, d['mode'], d['inst'], d['P'], d['sched_seed'], d['policy']))
        else:
            o = c08_nodepar._run_job((1, d['flavour'], d['cfg'], d['sched_seed'], d['policy']))
        print(json.dumps(dict(diffs=o.get('diffs'), error=o.get('error'), events=len(o.get('ev') or [])), indent=1)[:3000])
        return 1 if (o.get('diffs') or o.get('error')) else 0
    if d.get('kind') in ('mpi-vs-serial', 'mpi-trace'):
        from harness import mpi_runs
        ser = mpi_runs.run_serial(d['cfg'])
        m = mpi_runs.run_mpi(d['cfg'], sched_seed=d['sched_seed'], policy=d['policy'])
        print(json.dumps(dict(diffs=compare(d['cfg'], ser, m), deadlock=m['deadlock'], exc=m['exc']), indent=1)[:2000])
        return 1
    print(json.dumps(d, indent=1)[:3000])
    return 1
