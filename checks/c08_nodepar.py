"""C08, node-parallel part: generic_implicit_MPI / imex_1st_order_MPI / base_transfer_MPI, one simulated rank per node.
  (a) NodeParallel.tla: every interleaving of entering / leaving the collectives of SDC and MLSDC operation sequences
      (early completion of rooted collectives included): matching calls, consistent generations, no deadlock, termination;
      a proper subset of ranks with a tau correction is the non-theorem that guards against vacuity
  (b) single operations over Z_p on random instances and schedules: the per-rank results, assembled, are validated by TLC
      against SdcAlgebra (the node-parallel sweep is the sweep with the diagonal of QI) and compared for equality with the real
      serial classes; the event log of the collectives is validated against NodeParallel's rules (TraceNodeParallel)
  (c) complete runs of controller_nonMPI with the node-parallel classes underneath, over Z_p (equality with the serial run)
      and on float problems (discrete quantities equal, values up to 1e-9 relative)"""
import json
import os

from lib import tlc
from checks import algebra

POLICIES = ['random', 'eager', 'lazy']


def _diag(Q):
    M = len(Q)
    return [[Q[a][b] if a == b else 0 for b in range(M)] for a in range(M)]


def make_instance(rng, P, mode):
    kind = rng.choice(['impl', 'imex'])
    while True:
        inst = algebra.random_instance(rng, P, mode, [kind])
        if mode == 'sweep' or inst['G']['M'] == inst['M']:
            break
    inst.pop('QIK', None)
    inst.pop('k', None)
    M = inst['M']
    for L in [inst] + ([inst['G']] if mode == 'transfer' else []):
        L['QI'] = _diag(L['QI'])
        L['QE'] = [[0] * M for _ in range(M)]
    if mode == 'transfer':
        inst['rightnode'], inst['collupdate'] = True, False
    if mode == 'sweep' and rng.random() < 0.35:
        algebra.make_fixed_point(inst, P, rng)
    return inst


def _op_job(args):
    jid, mode, inst, P, ss, pol = args
    from harness import nodepar, zp_cases
    try:
        if mode == 'sweep':
            ser = zp_cases.run_sweep_case(inst, P)
            out, ev, info = nodepar.run_sweep_case_mpi(inst, P, sched_seed=ss, policy=pol)
            keys = ('integrate', 'res', 'uend', 'defined', 'sweep')
        else:
            ser = zp_cases.run_transfer_case(inst, P)
            if not ser['defined']:
                return dict(jid=jid, skipped='coarse sweep undefined (singular diagonal solve)')
            out, ev, info = nodepar.run_transfer_case_mpi(inst, P, sched_seed=ss, policy=pol)
            keys = ('restricted', 'coarse_res', 'defined', 'coarse_swept', 'prolonged', 'f_impl', 'f_expl')
        diffs = []
        if info['deadlock'] or info['failed']:
            diffs.append(('deadlock' if info['deadlock'] else 'mpi_error', str(info['failed'] or info['errors'])[:300]))
        if out is None:
            if not diffs:
                diffs.append(('rank_failed', str(info['errors'])[:300]))
            return dict(jid=jid, mode=mode, inst=inst, diffs=diffs, ev=nodepar.normalise_events(ev), info=info, out=None)
        for k in info['agree']:
            diffs.append(('ranks_disagree', k))
        for k in keys:
            if out.get(k) != ser.get(k) and not (k in ('sweep', 'coarse_swept', 'prolonged', 'f_impl', 'f_expl') and not ser['defined']):
                diffs.append((k, f'node-parallel {json.dumps(out.get(k))[:120]} / serial {json.dumps(ser.get(k))[:120]}'))
        # shape for TraceSdcAlgebra
        if mode == 'sweep':
            out['rel_ok'] = bool(out.pop('full_rel_ok', True) and out.pop('last_rel_ok', True))
            out.setdefault('uend_after', [])
            out.setdefault('f_fresh', True)
            out.setdefault('u0_kept', True)
        else:
            out.setdefault('fine_u0_kept', True)
            out.setdefault('coarse_swept', [])
            out.setdefault('prolonged', [])
            out.setdefault('f_impl', [])
            out.setdefault('f_expl', [])
            out.setdefault('finter', False)
        return dict(jid=jid, mode=mode, inst=inst, diffs=diffs, ev=nodepar.normalise_events(ev), info=info, out=out)
    except Exception as e:  # noqa
        from lib.errors import describe
        return dict(jid=jid, error=describe(e, 500))


def _run_job(args):
    jid, kind, cfg, ss, pol = args
    from harness import nodepar
    try:
        if kind == 'zp':
            ser = nodepar.run_zp_serial(cfg)
            par = nodepar.run_zp_nodepar(cfg, sched_seed=ss, policy=pol)
            diffs = []
            if par.get('deadlock') or (par.get('failed') and not par.get('exc')):
                diffs.append(('deadlock' if par.get('deadlock') else 'mpi_error', str(par.get('failed') or par.get('msg'))[:300]))
            elif (ser['exc'] or 'none') != (par['exc'] or 'none'):
                diffs.append(('exception', f"serial {ser['exc']} {ser.get('msg', '')[:100]} / node-parallel {par['exc']} {par.get('msg', '')[:150]}"))
            elif not ser['exc']:
                for k in par['agree']:
                    diffs.append(('ranks_disagree', k))
                F = ('slot', 't', 'u0', 'U', 'uend', 'niter', 'res')
                ss_ = [{k: s[k] for k in F} for s in ser['steps']]
                ps_ = [{k: s[k] for k in F} for s in par.get('steps', [])]
                if [(s['t'], s['slot']) for s in ss_] != [(s['t'], s['slot']) for s in ps_]:
                    diffs.append(('step_times', 'accepted steps differ'))
                elif [s['niter'] for s in ss_] != [s['niter'] for s in ps_]:
                    diffs.append(('iteration_counts', f"serial {[s['niter'] for s in ss_]} / node-parallel {[s['niter'] for s in ps_]}"))
                elif ss_ != ps_:
                    diffs.append(('step_values', 'values / residuals of accepted steps differ'))
                if ser['ret'] != par.get('ret'):
                    diffs.append(('returned_value', f"serial {ser['ret']} / node-parallel {par.get('ret')}"))
            return dict(jid=jid, kind=kind, cfg=cfg, diffs=diffs, ev=nodepar.normalise_events(par['events']), nsteps=len(ser.get('steps') or []),
                        M=cfg['levels'][0]['M'])
        ser = nodepar.run_float(cfg)
        par = nodepar.run_float_nodepar(cfg, sched_seed=ss, policy=pol)
        diffs = []
        if par.get('deadlock') or par.get('exc'):
            diffs.append(('deadlock' if par.get('deadlock') else 'exception', str(par.get('failed') or par.get('msg'))[:300]))
        else:
            diffs = nodepar.compare_float(ser, par)
        return dict(jid=jid, kind=kind, cfg=cfg, diffs=diffs, ev=nodepar.normalise_events(par['events']), nsteps=cfg['nsteps'], M=cfg['M'])
    except Exception as e:  # noqa
        from lib.errors import describe
        return dict(jid=jid, error=describe(e, 500))


def _tvnp_job(args):
    wd, runs = args
    os.makedirs(wd, exist_ok=True)
    tf = os.path.join(wd, 't.json')
    with open(tf, 'w') as f:
        json.dump(dict(runs=runs), f)
    cfg = os.path.join(wd, 'T.cfg')
    tlc.write_cfg(cfg, spec='Spec', check_deadlock=False)
    res = tlc.run_tlc('TraceNodeParallel', cfg, workers=1, timeout=1500, env_extra={'TRACE_FILE': tf})
    v = {x['tid']: x for x in res.prints if isinstance(x, dict) and 'tid' in x}
    return v, res.summary(), ('' if len(v) == len(runs) else res.raw[-800:])


def _mc_job(args):
    wd, lab, M, prog, notau, live = args
    os.makedirs(wd, exist_ok=True)
    cfg = os.path.join(wd, 'NP.cfg')
    c = dict(M=str(M), PROG=('<-', prog), NOTAU=('<-', notau))
    if live:
        tlc.write_cfg(cfg, spec='FairSpec', constants=c, properties=['Terminates'], check_deadlock=True)
    else:
        tlc.write_cfg(cfg, spec='Spec', constants=c, invariants=['TypeOK', 'CollectiveMatch', 'GenerationConsistent', 'NoRunaway', 'NoPartialCollective'],
                      check_deadlock=True)
    return lab, tlc.run_tlc('NodeParallelMC', cfg, workers=4, timeout=1500)


def float_configs(tier, rng):
    C = [dict(problem='test', NL=1, M=3, dt=0.25, nsteps=3),
         dict(problem='test', NL=1, M=2, dt=0.25, nsteps=2, residual_type='last_abs', guess='copy'),
         dict(problem='heat', NL=1, M=3, dt=0.1, nsteps=2, collupdate=True, quad='GAUSS', QI='IEpar'),
         dict(problem='heat', NL=2, M=3, dt=0.1, nsteps=2, NP=2),
         dict(problem='heat', NL=2, M=2, dt=0.05, nsteps=3, NP=1, residual_type='full_rel', nsweeps=[2, 1]),
         dict(problem='heat_forced', NL=1, M=3, dt=0.1, nsteps=2, residual_type='last_rel'),
         dict(problem='heat_forced', NL=2, M=2, dt=0.1, nsteps=2, finter=True),
         dict(problem='heat_forced', NL=2, M=3, dt=0.1, nsteps=4, NP=2, jac=False, guess='zero')]
    if tier == 'thorough':
        C += [dict(problem='heat', NL=2, M=4, dt=0.1, nsteps=4, NP=4, QI='MIN-SR-NS'), dict(problem='test', NL=1, M=4, dt=0.5, nsteps=4, QI='MIN'),
              dict(problem='heat_forced', NL=2, M=4, dt=0.05, nsteps=3, NP=3, finter=True)]
    return C


def run_part(rep, pool, scratch, tier, rng):
    """adds the node-parallel results to the report `rep` of C08"""
    from harness import zp_runs, nodepar
    # (a) model checking
    mcs = [('SDC M=3', 3, 'SdcProg', 'None', False), ('MLSDC M=3', 3, 'MlsdcProg', 'None', False), ('quadrature end point with tau M=3', 3, 'CollProg', 'None', False),
           ('SDC M=4', 4, 'SdcProg', 'None', False), ('termination SDC M=2', 2, 'SdcProg', 'None', True), ('termination MLSDC M=2', 2, 'MlsdcProg', 'None', True),
           ('NON-THEOREM tau on some ranks only', 3, 'CollProg2', 'OnlyZero', False)]
    if tier == 'thorough':
        mcs += [('MLSDC M=4', 4, 'MlsdcProg', 'None', False), ('SDC M=5', 5, 'SdcProg', 'None', False), ('termination MLSDC M=3', 3, 'MlsdcProg', 'None', True)]
    mc_async = [pool.apply_async(_mc_job, ((os.path.join(scratch, f'npmc{k}'), lab, M, prog, notau, live),)) for k, (lab, M, prog, notau, live) in enumerate(mcs)]
    # (b) single operations
    n_ops = 240 if tier == 'quick' else 3000
    jobs = []
    for i in range(n_ops):
        P = rng.choice([3, 5, 5])
        mode = 'sweep' if i % 3 else 'transfer'
        jobs.append((len(jobs) + 1, mode, make_instance(rng, P, mode), P, rng.randint(0, 10 ** 6), POLICIES[i % 3]))
    op_out = pool.map(_op_job, jobs, chunksize=4)
    # (c) complete runs
    rjobs = []
    n_zp = 36 if tier == 'quick' else 400
    tries = 0
    while len(rjobs) < n_zp and tries < 20 * n_zp:
        tries += 1
        c = nodepar.diag_config(zp_runs.random_run_config(rng, rng.choice([3, 5])))
        if c is not None:
            rjobs.append((len(rjobs) + 1, 'zp', c, rng.randint(0, 10 ** 6), POLICIES[len(rjobs) % 3]))
    for cfg in float_configs(tier, rng):
        for k in range(2 if tier == 'quick' else 6):
            rjobs.append((len(rjobs) + 1, 'float', cfg, rng.randint(0, 10 ** 6), POLICIES[k % 3]))
    futs = [pool.apply_async(_run_job, (j,)) for j in rjobs]
    run_out = []
    for j, f in zip(rjobs, futs):
        try:
            run_out.append(f.get(timeout=600))
        except Exception as e:  # noqa
            run_out.append(dict(jid=j[0], error=f'run did not finish: {type(e).__name__} {e}'))

    byjid_op = {j[0]: j for j in jobs}
    byjid_run = {j[0]: j for j in rjobs}
    # serial-equality verdicts
    nskip = 0
    cases_by_P = {}
    tv_runs = []
    where = {}
    for o in op_out:
        j = byjid_op[o['jid']]
        if 'error' in o:
            rep.problem('node-parallel operation failed: ' + o['error'], dict(kind='nodepar-op', mode=j[1], inst=j[2], P=j[3], sched_seed=j[4], policy=j[5]),
                        clause='nodepar.unexpected_library_error')
            continue
        if 'skipped' in o:
            nskip += 1
            continue
        for name, text in o['diffs']:
            rep.violation('nodepar.equal.' + name, dict(kind='nodepar-op', what=name, detail=text, mode=j[1], inst=j[2], P=j[3], sched_seed=j[4], policy=j[5]))
        if o['out'] is not None:
            cases_by_P.setdefault(j[3], []).append(dict(id=o['jid'], mode=o['mode'], inst=o['inst'], out=o['out']))
        tid = len(tv_runs) + 1
        where[tid] = ('op', o['jid'])
        tv_runs.append(dict(tid=tid, M=j[2]['M'], hastau=bool(j[2]['tau']), program=True, ev=o['ev']))
    for o in run_out:
        j = byjid_run[o['jid']]
        if 'error' in o:
            rep.problem('node-parallel run failed: ' + o['error'], dict(kind='nodepar-run', flavour=j[1], cfg=j[2], sched_seed=j[3], policy=j[4]),
                        clause='nodepar.unexpected_library_error')
            continue
        for name, text in o['diffs']:
            rep.violation('nodepar.equal.' + name, dict(kind='nodepar-run', what=name, detail=text, flavour=j[1], cfg=j[2], sched_seed=j[3], policy=j[4]))
        tid = len(tv_runs) + 1
        where[tid] = ('run', o['jid'])
        tv_runs.append(dict(tid=tid, M=o['M'], hastau=True, program=False, ev=o['ev']))
    # TLC: algebra of the assembled results
    n_alg = 0
    for P, cases in cases_by_P.items():
        chunks = [cases[i::8] for i in range(8)]
        res = pool.map(algebra._tv_validate_job, [(os.path.join(scratch, f'npalg_{P}_{k}'), P, ch) for k, ch in enumerate(chunks) if ch], chunksize=1)
        for verdicts, summ, raw in res:
            rep.states += summ['distinct']
            rep.transitions += summ['generated']
            if raw:
                rep.machinery.append('TraceSdcAlgebra (node-parallel cases) did not return all verdicts: ' + raw[-300:])
            for cid, viol in verdicts.items():
                n_alg += 1
                j = byjid_op[cid]
                for clause in viol[:3]:
                    rep.violation('nodepar.alg.' + clause, dict(kind='nodepar-op', what='model', clause=clause, mode=j[1], inst=j[2], P=j[3], sched_seed=j[4], policy=j[5]))
    # TLC: event logs
    chunks = [tv_runs[i::16] for i in range(16)]
    res = pool.map(_tvnp_job, [(os.path.join(scratch, f'nptv{k}'), ch) for k, ch in enumerate(chunks) if ch], chunksize=1)
    n_ev = n_colls = n_opsseen = 0
    notes = 0
    for verdicts, summ, raw in res:
        rep.states += summ['distinct']
        rep.transitions += summ['generated']
        if raw:
            rep.machinery.append('TraceNodeParallel did not return all verdicts: ' + raw[-300:])
        for tid, v in verdicts.items():
            rep.traces += 1
            n_ev += v['n']
            n_colls += v['colls']
            n_opsseen += v['ops']
            what, jid = where[tid]
            for ln, clause in v['viol'][:3]:
                if clause == 'np.program':
                    notes += 1  # informational: the property does not prescribe the communication pattern
                    continue
                j = byjid_op[jid] if what == 'op' else byjid_run[jid]
                d = dict(kind='nodepar-' + what, what='event-log', clause=clause, line=ln, sched_seed=j[4] if what == 'op' else j[3], policy=j[5] if what == 'op' else j[4])
                if what == 'op':
                    d.update(mode=j[1], inst=j[2], P=j[3])
                else:
                    d.update(flavour=j[1], cfg=j[2])
                rep.violation('nodepar.' + clause, d)
    rep.cov['nodepar_operations'] = len(op_out) - nskip
    rep.cov['nodepar_operations_validated_against_SdcAlgebra'] = n_alg
    rep.cov['nodepar_complete_runs'] = len(run_out)
    rep.cov['nodepar_events_validated'] = n_ev
    rep.cov['nodepar_collectives_validated'] = n_colls
    rep.cov['nodepar_program_deviations_noted'] = notes
    for fut in mc_async:
        lab, r = fut.get()
        rep.add_tlc(r, 'MC NodeParallel ' + lab)
        if lab.startswith('NON-THEOREM'):
            if not r.violation:
                rep.machinery.append('NodeParallel: the non-theorem (tau on some ranks only) was not refuted -- the model check is vacuous')
            continue
        if r.violation:
            rep.violation('model.nodepar.' + r.violation, dict(kind='model', label=lab, tlc_error=r.error_text[:5000]))
        elif not r.ok:
            rep.machinery.append(f'NodeParallel {lab} did not complete: {r.raw[-300:]}')
