"""Engine shared by the properties decided on spec/PfasstSerial.tla (C03 C06 C07 C09 C13(run clause) C14).

Three uses of TLC, one specification:
  MC   exhaustive model checking of PfasstSerial with the property invariants
  GEN  TLC enumerates behaviours (oracle scripts) which are replayed on the real controller_nonMPI
  TV   every recorded run of the real controller (from GEN, from the exhaustive exploration of the real code's
       oracle choice tree, from random scripts beyond the bounds) is validated by TLC against TracePfasstSerial
"""
import json
import multiprocessing as mp
import os
import random
import shutil
import sys
import tempfile
import time

HERE = os.path.dirname(os.path.abspath(__file__))
ROOT = os.path.dirname(HERE)
sys.path.insert(0, ROOT)

from lib import tlc  # noqa: E402
from harness import drive_serial as ds  # noqa: E402
from harness import explore_serial as ex  # noqa: E402

ALL_INVARIANTS = [
    'TypeOK', 'FinishInOrder', 'LockStep', 'TagMatch', 'NoPredictError', 'IterEqual', 'RecvFromSend',
    'A2DEqualIters', 'DoneIffStageDone', 'IterBudget', 'NiterFaithful', 'ResidualFresh', 'EndPointFresh',
    'DoneAfterSweep', 'TileStart', 'TileContiguous', 'NoStartBeyondTend', 'NoEarlyStop', 'ChainValues',
    'ReturnIsLast', 'CarryConsistent', 'NextBlockStartsAtEnd', 'NothingOnlyIfEmpty', 'PosDt', 'FixedStepCount',
    'OneDtPerBlock', 'RetryBudget', 'CrashOnlyAfterBudget', 'StatsOnePerStep', 'StatsNiter', 'StatsIterRecords',
]

# which property a model invariant belongs to
INV_PROPERTY = {
    'FinishInOrder': 'C07', 'LockStep': 'C07', 'TagMatch': 'C07', 'NoPredictError': 'C07', 'IterEqual': 'C07',
    'RecvFromSend': 'C07', 'A2DEqualIters': 'C07', 'DoneIffStageDone': 'C07', 'DoneStable': 'C07',
    'Terminates': 'C07', 'TypeOK': 'C07',
    'IterBudget': 'C03', 'NiterFaithful': 'C03', 'ResidualFresh': 'C03', 'DoneAfterSweep': 'C03',
    'EndPointFresh': 'C06', 'TileStart': 'C06', 'TileContiguous': 'C06', 'NoStartBeyondTend': 'C06',
    'NoEarlyStop': 'C06', 'ChainValues': 'C06', 'ReturnIsLast': 'C06', 'CarryConsistent': 'C06',
    'NextBlockStartsAtEnd': 'C06', 'NothingOnlyIfEmpty': 'C06', 'PosDt': 'C06', 'FixedStepCount': 'C06',
    'OneDtPerBlock': 'C09', 'RetryBudget': 'C09', 'CrashOnlyAfterBudget': 'C09',
    'StatsOnePerStep': 'C14', 'StatsNiter': 'C14', 'StatsIterRecords': 'C14',
}

# which property a trace clause belongs to
CLAUSE_PROPERTY = {
    'conf.stage': 'C07', 'conf.pdone': 'C07', 'conf.tag': 'C07', 'conf.stage_name': 'C07', 'conf.done': 'C07',
    'obs.finish_in_order': 'C07', 'obs.lockstep': 'C07', 'obs.iter_equal': 'C07', 'obs.done_stable': 'C07',
    'obs.done_data_stable': 'C07', 'obs.callback_grammar': 'C07', 'obs.recv_tag': 'C07', 'obs.no_comm_error': 'C07',
    'obs.no_controller_error': 'C07', 'obs.a2d_equal_iters': 'C07', 'obs.done_flag': 'C07',
    'conf.blockend_all_done': 'C07', 'conf.unexpected_line': 'C07', 'conf.oracle_alignment': 'C07',
    'obs.no_other_error': 'C07',
    'conf.iter': 'C03', 'conf.fdone': 'C03', 'stop.rule': 'C03', 'stop.after_sweep': 'C03',
    'val.residual_fresh': 'C03', 'val.residual_value': 'C03', 'obs.iter_budget': 'C03', 'ver.niter': 'C03', 'conf.sweep': 'C03',
    'conf.start.nact': 'C06', 'conf.start.time': 'C06', 'conf.start.dt': 'C06', 'conf.nact': 'C06',
    'conf.time': 'C06', 'val.recv_is_prev_uend': 'C06', 'val.recv_copies_uend': 'C06', 'val.uend_fresh': 'C06',
    'val.carry': 'C06', 'val.restart_start_value': 'C09', 'obs.restart_start_time': 'C09', 'val.chain': 'C06', 'val.block_start_value': 'C06', 'val.start_from_u0': 'C06',
    'val.return_is_last_uend': 'C06', 'obs.next_block_start': 'C06', 'obs.contiguous': 'C06',
    'obs.no_start_beyond_tend': 'C06', 'obs.no_early_stop': 'C06', 'ver.chain': 'C06', 'ver.endpoint': 'C06',
    'acc.tile_start': 'C06', 'acc.tile_contiguous': 'C06', 'acc.no_start_beyond_tend': 'C06',
    'acc.no_early_stop': 'C06', 'acc.fixed_step_count': 'C06', 'conf.outcome': 'C06',
    'conf.restart': 'C09', 'conf.riar': 'C09', 'conf.dt': 'C09', 'conf.dtnew': 'C09', 'conf.level_dt': 'note',
    'obs.one_dt_per_block': 'C09', 'obs.crash_only_after_budget': 'C09', 'acc.retry_budget': 'C09',
    'conf.error': 'C09',
    'val.u0_copied': 'C13', 'val.caller_u0_unchanged': 'C13', 'val.logged_unchanged': 'C13',
    'stats.entries': 'C14', 'stats.one_per_step': 'C14', 'stats.niter': 'C14', 'stats.filter': 'C14',
    'stats.iteration_records': 'C14', 'stats.filter_without_type': 'C14', 'stats.work_counters': 'C14', 'stats.earlier_run_unchanged': 'C14', 'conf.recv_levels': 'C07', 'val.residual_after_sweep': 'C03',
}


def oracle_consts(res=(False, True), rs=(False,), dtm=(0,), fd=(False,), fc=(False,)):
    def bs(xs):
        return '{' + ', '.join('TRUE' if x else 'FALSE' for x in sorted(set(xs))) + '}'

    return dict(O_RES=bs(res), O_RS=bs(rs), O_DTN='{' + ', '.join(str(x) for x in sorted(set(dtm))) + '}',
                O_FD=bs(fd), O_FC=bs(fc))


def _mc_files(workdir, cfg, oracle, name, hist=False, **cfgkw):
    os.makedirs(workdir, exist_ok=True)
    mod = os.path.join(workdir, f'{name}.tla')
    cons = list(cfgkw.pop('constraints', []) or [])
    consts = ds.cfg_constants(cfg, oracle, hist=hist)
    consts['NSW'] = ('<-', 'mc_NSW')
    negs = ds.negative_constants(consts)
    with open(mod, 'w') as f:
        f.write('---- MODULE %s ----\nEXTENDS PfasstSerial\nmc_NSW == %s\n%s' % (name, tlc.tla_value(list(cfg['NSW'])), negs))
        for i, c in enumerate(cons):
            f.write(f'mc_C{i} == {c}\n')
        f.write('====\n')
    cfgkw['constraints'] = [f'mc_C{i}' for i in range(len(cons))]
    cfgp = os.path.join(workdir, f'{name}.cfg')
    tlc.write_cfg(cfgp, constants=consts, **cfgkw)
    return cfgp


def model_check(cfg, oracle, invariants, workdir, workers=4, timeout=900, liveness=False, coverage=False,
                action_props=(), view='view', constraints=()):
    """exhaustive TLC run; returns TlcResult"""
    if liveness:
        cfgp = _mc_files(workdir, cfg, oracle, 'MCL', spec='FairSpec', properties=['Terminates'], view=None,
                         check_deadlock=False)
        return tlc.run_tlc('MCL', cfgp, workers=workers, timeout=timeout, spec_dir=workdir, library=tlc.SPEC_DIR,
                           coverage=False)
    cfgp = _mc_files(workdir, cfg, oracle, 'MC', hist=True, spec='Spec', invariants=invariants, properties=list(action_props),
                     view=view, check_deadlock=False, constraints=list(constraints))
    return tlc.run_tlc('MC', cfgp, workers=workers, timeout=timeout, spec_dir=workdir, library=tlc.SPEC_DIR,
                       coverage=coverage)


def counterexample_script(res):
    """extract the oracle history from the last state of a TLC counterexample (text) -> flat script or None"""
    import re
    txt = res.error_text
    i = txt.rfind('/\\ hist = ')
    if i < 0:
        return None
    j = txt.find('\n/\\ ', i + 5)
    body = txt[i + len('/\\ hist = '):j if j > 0 else None]
    script = []
    # elements: <<0, TRUE, FALSE, 0, FALSE, FALSE>>
    for m in re.finditer(r'<<\s*(\d+),\s*(\w+),\s*(\w+),\s*(\d+),\s*(\w+),\s*(\w+)\s*>>', body):
        script.append(dict(s=int(m.group(1)), res=m.group(2) == 'TRUE', rs=m.group(3) == 'TRUE', dtn=int(m.group(4)),
                           fd=m.group(5) == 'TRUE', fc=m.group(6) == 'TRUE'))
    return script


def generate(cfg, oracle, workdir, workers=4, timeout=600, simulate=None, seed=0, constraints=()):
    """TLC enumerates (or samples) behaviours; returns list of oracle scripts (absolute dtn in ticks)"""
    cfgp = _mc_files(workdir, cfg, oracle, 'GEN', hist=True, spec='GenSpec', invariants=['GenPrint'], check_deadlock=False,
                     constraints=list(constraints))
    res = tlc.run_tlc('GEN', cfgp, workers=workers, timeout=timeout, spec_dir=workdir, library=tlc.SPEC_DIR,
                      simulate=simulate, depth=400 if simulate else None, seed=seed if simulate else None)
    scripts = {}
    for v in res.prints:
        if isinstance(v, dict) and v.get('gen'):
            key = json.dumps(v['script'])
            scripts[key] = v
    return list(scripts.values()), res


def _run_job(args):
    cfg, script, tid = args
    return ds.run_one(cfg, script, tid=tid)


def replay_scripts(cfg, gen, pool, tid0=0):
    jobs = []
    for i, g in enumerate(gen):
        script = [dict(res=o['res'], rs=o['rs'], dtn=o['dtn'], fd=o['fd'], fc=o['fc']) for o in g['script']]
        jobs.append((cfg, script, tid0 + i + 1))
    return pool.map(_run_job, jobs, chunksize=max(1, len(jobs) // 64)) if jobs else []


def _validate_job(args):
    cfg, runs, workdir = args
    v, res = ds.validate_batch(cfg, runs, workdir)
    return v, res.summary(), (res.raw[-2000:] if not res.ok else '')


def validate_runs(groups, scratch, pool):
    """groups: list of (cfg, runs).  Runs of one cfg are split into batches validated by parallel TLC processes."""
    jobs = []
    n = 0
    for cfg, runs in groups:
        for i in range(0, len(runs), 400):
            n += 1
            jobs.append((cfg, runs[i:i + 400], os.path.join(scratch, f'tv{n}')))
    out = pool.map(_validate_job, jobs, chunksize=1) if jobs else []
    verdicts = {}
    summaries = []
    problems = []
    for (cfg, runs, _), (v, summ, raw) in zip(jobs, out):
        summaries.append(summ)
        got = 0
        for r in runs:
            vv = v.get(r['tid'])
            if vv is None:
                problems.append(f"no verdict for run {r['tid']} ({ds.cfg_key(cfg)}): {raw[-600:]}")
            else:
                verdicts[(ds.cfg_key(cfg), r['tid'])] = (cfg, r, vv)
                got += 1
    return verdicts, summaries, problems


def random_scripts(cfg, options, n, rng, length=200):
    out = []
    for _ in range(n):
        # bias: mostly converging so that runs terminate quickly, sometimes adversarial
        pconv = rng.choice([0.2, 0.5, 0.8])
        sc = []
        for _ in range(length):
            o = dict(rng.choice(options))
            o['res'] = rng.random() < pconv
            sc.append(o)
        out.append(sc)
    return out
