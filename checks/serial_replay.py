"""replay of a violation file written by the PfasstSerial engine: re-runs the script on the real code and
re-validates the trace with TLC"""
import json
import os
import sys
import tempfile
import shutil

from harness import drive_serial as ds


def replay(path):
    d = json.load(open(path))
    cfg, script = d['cfg'], d.get('real_script') or d.get('script') or []
    script = [{k: v for k, v in o.items() if k != 's'} for o in script]
    run = ds.run_one(cfg, script, tid=1, default=dict(res=True))
    wd = tempfile.mkdtemp(prefix='verif_replay_')
    try:
        v, res = ds.validate_batch(cfg, [run], wd)
    finally:
        shutil.rmtree(wd, ignore_errors=True)
    print(json.dumps(dict(exc=run['exc'], verdict=v.get(1)), indent=1))
    vv = v.get(1)
    return 1 if (vv and vv['viol']) else 0
