"""replay of a violation file written by the PfasstSerial engine: re-runs the script on the real code and
re-validates the trace with TLC"""
import json
import os
import sys
import tempfile
import shutil

from harness import drive_serial as ds


def replay_other(d):
    """violation files of the parts that do not use the controller traces"""
    kind = d.get('kind')
    if kind == 'float-tiling':
        from harness import float_tiling
        o = float_tiling.run(d['case'])
        print(json.dumps({k: o.get(k) for k in ('exc', 'n_expected', 'raw')}, default=str), 'steps:', len(o.get('steps', [])))
        return 1 if o.get('exc') or len(o.get('steps', [])) != o.get('n_expected') else 0
    if kind == 'adaptive-run':
        from harness import adapt_runs
        o = adapt_runs.run(d['case'])
        print(json.dumps(dict(exc=o['exc'], attempts=o['att'][:12]), indent=1)[:3000])
        return 1
    if kind == 'synthetic-stats':
        from harness import stats_synth
        p = stats_synth.compare(d['case'], tuple(d['scale']))
        print(json.dumps(p, indent=1))
        return 1 if p else 0
    if kind == 'hook-set':
        from harness import hooksets
        p = hooksets.compare(d['case'], hooksets.run(d['case']))
        print(json.dumps(p, indent=1))
        return 1 if p else 0
    if kind == 'value-semantics':
        print(json.dumps({k: d[k] for k in ('prog', 'family', 'problems')}, indent=1)[:3000])
        return 1
    print(json.dumps(d, indent=1, default=str)[:4000])
    return 1


def replay(path):
    d = json.load(open(path))
    if 'cfg' not in d or d.get('kind') not in (None, 'trace', 'model'):
        return replay_other(d)
    cfg, script = d['cfg'], d.get('real_script') or d.get('script') or []
    script = [{k: v for k, v in o.items() if k != 's'} for o in script]
    run = ds.run_one(cfg, script, tid=1, default=dict(res=True))
    wd = tempfile.mkdtemp(prefix='verif_replay_')
    try:
        v, res = ds.validate_batch(cfg, [run], wd)
    finally:
        shutil.rmtree(wd, ignore_errors=True)
    print(json.dumps(dict(exc=run['exc'], verdict=v.get(1)), indent=1))
    vv = v.get(1)
    return 1 if (vv and vv['viol']) else 0
