"""C10 -- coarse levels never change the fine fixed point (FAS consistency).  BaseTransfer.restrict / prolong with the
real coarse sweep in between, exact over Z_p; node-set and space transfer matrices are arbitrary (restriction rows
summing to one -- hypothesis H1 -- is what pySDC's own Lagrange matrices provide)."""
import json
import multiprocessing as mp
import os
import random
import shutil
import tempfile

from lib.evidence import Report
from checks import algebra as alg


def _restrict2_job(args):
    cid, cfg, u0b = args
    from harness import zp_cases
    try:
        out = zp_cases.run_restrict_twice_case(cfg, u0b)
    except Exception as e:  # noqa
        from lib.errors import describe
        return dict(error=describe(e, 300))
    return dict(id=cid, mode='restrict2', kind=cfg['kind'], levels=cfg['levels'], transfers=cfg['transfers'], u0b=u0b, U=cfg['U'], out=out)


def _iter_job(args):
    cid, cfg = args
    from harness import zp_runs
    from pySDC.core.errors import ProblemError
    try:
        out = zp_runs.run(cfg)
    except ProblemError:
        return dict(singular=True)  # a diagonal solve is singular over Z_p for this instance
    except Exception as e:  # noqa
        from lib.errors import describe
        return dict(error=describe(e, 300))
    return dict(id=cid, mode='iter', kind=cfg['kind'], levels=cfg['levels'], transfers=cfg['transfers'], nsw=cfg['nsweeps'], K=cfg['maxiter'],
                u_init=cfg['u_init'], probe=cfg['probe'], out=out)


def run(tier, seed):
    rep = Report('C10', tier, seed)
    rep.assumptions = [
        'core transfer (BaseTransfer.restrict/prolong) and the real sweepers on a Z_p data type; the float space-transfer classes '
        '(TransferMesh, TransferMesh_FFT, ...) enter the identities only as SOME linear maps and are not exercised themselves',
        'hypothesis H1: every row of the node restriction matrix sums to one (true for Lagrange interpolation matrices); TLC also '
        'exhibits the counterexample without H1 as a documented non-theorem',
        'node-to-node matrices are installed through a BaseTransfer sub-class (the float Lagrange matrices have no image in Z_p)',
        'one multilevel iteration: complete runs of the real controller (one step, 2-3 levels, maxiter = K, tolerance never met) compared '
        'with the transcription MLIterate of the stage sequence; its affinity in the iterate is evaluated on every case',
        'BaseTransfer_mass is not covered']
    rep.rule = ('cases = two-level instances (fine/coarse quadrature and preconditioner matrices, node and space transfer matrices, '
                'operators, data); non-trivial = coarse sweep defined; a fifth of the random cases start from a fine collocation solution')
    rng = random.Random(seed)
    scratch = tempfile.mkdtemp(prefix='verif_c10_')
    try:
        with mp.Pool(16) as pool:
            # (the exhaustive enumeration grows by a factor of several thousand with every further node or inherited correction:
            #  two fine nodes with an arbitrary inherited tau filled the disk; the thorough tier samples those instead)
            mcs = [('transfer impl Mf=1 Mc=1 n=1 all (H1)', alg.consts(3, 'transfer', ['impl'], [1], [1], [1, 2], False, False, False,
                                                                     taus=['none', 'any'] if tier == 'thorough' else ['none']))]
            mc_async = [(lab, alg.submit(pool, os.path.join(scratch, f'mc{i}'), c, alg.TRANSFER_INVS, workers=8, timeout=3000)) for i, (lab, c) in enumerate(mcs)]
            # documented non-theorem: without H1 the fixed point is not preserved (TLC must find the counterexample)
            noh1 = alg.submit(pool, os.path.join(scratch, 'noh1'), alg.consts(3, 'transfer', ['impl'], [1], [1], [1], False, False, False, h1=False, taus=['none']),
                              ['DownUpWithoutH1'], workers=4, timeout=1200)
            gens = []
            for gi, (P, num) in enumerate([(3, 100 if tier == 'quick' else 1200), (5, 100 if tier == 'quick' else 1200)]):
                c = alg.consts(P, 'transfer', ['impl', 'imex', 'expl'], [1, 2, 3], [1, 2], [1, 2], True, True, True)
                gens.append((P, alg.submit(pool, os.path.join(scratch, f'gen{gi}'), c, ['Export'], workers=4, simulate=num, seed=seed + gi, timeout=3000)))
            tv_results = []
            for P, n_inst in ((5, 500 if tier == 'quick' else 5000), (7, 250 if tier == 'quick' else 2500)):
                insts = []
                for k in range(n_inst):
                    inst = alg.random_instance(rng, P, 'transfer', ['impl', 'imex', 'expl'], h1=(k % 7 != 0))
                    if k % 5 == 0:
                        alg.make_fixed_point(inst, P, rng)
                    insts.append(inst)
                tv_results.append((P, alg.trace_validate(pool, scratch, P, insts, f'p{P}')))
            nontrivial = 0
            for P, (cases, verdicts, summaries, problems) in tv_results:
                for pr in problems:
                    rep.problem(pr, dict(P=P), clause='alg.unexpected_library_error')
                for s in summaries:
                    rep.states += s['distinct']
                    rep.transitions += s['generated']
                for c in cases:
                    v = verdicts.get(c['id'])
                    if v is None:
                        continue
                    rep.traces += 1
                    if c['out'].get('defined'):
                        nontrivial += 1
                    for clause in v[:1]:
                        rep.violation('alg.' + clause, dict(kind='algebra', P=P, clause=clause, all=v, case=c))
                if cases:
                    rep.samples.append(dict(P=P, case=cases[0]))
            for P, fut in gens:
                res = fut.get()
                rep.add_tlc(res, f'GEN SdcAlgebraMC transfer P={P} (simulation)')
                ex = alg.exported(res)
                if not ex:
                    rep.machinery.append(f'no instance exported for P={P}: {res.raw[-300:]}')
                out = pool.map(alg._replay_job, [(v, P) for v in ex], chunksize=8)
                for v, (diffs, real) in zip(ex, out):
                    rep.traces += 1
                    if v['defined']:
                        nontrivial += 1
                    for d in diffs[:1]:
                        if d.startswith('harness exception'):
                            rep.problem(d, dict(P=P, model=v), clause='replay.unexpected_library_error')
                        else:
                            rep.violation('replay.' + d, dict(kind='algebra-replay', P=P, diffs=diffs, model=v, real=real))
                rep.cov.setdefault('gen', []).append(dict(P=P, instances=len(ex)))
            for lab, fut in mc_async:
                res = fut.get()
                rep.add_tlc(res, 'MC ' + lab)
                if res.violation:
                    rep.violation('model.' + res.violation, dict(kind='model', label=lab, tlc_error=res.error_text[:4000]))
                elif not res.ok:
                    rep.machinery.append(f'MC {lab} did not complete: {res.raw[-300:]}')
            # third clause: K multilevel iterations of the REAL controller (one step, 2 or 3 levels, arbitrary sweeps per level) equal
            # the transcription of the stage sequence (IT_DOWN, IT_COARSE, IT_UP, IT_FINE), which is affine in the iterate
            from harness import zp_runs
            itcfgs = []
            for k in range(160 if tier == 'quick' else 2400):
                P = rng.choice([3, 5, 5])
                itcfgs.append((len(itcfgs) + 1, zp_runs.iteration_config(rng, P)))
            itout = pool.map(_iter_job, itcfgs, chunksize=4)
            byP = {}
            nskip = 0
            for (cid, cfg), o in zip(itcfgs, itout):
                if 'singular' in o:
                    nskip += 1
                    continue
                if 'error' in o:
                    rep.problem('iteration run failed: ' + o['error'], dict(kind='iteration', cfg=cfg), clause='iter.unexpected_library_error')
                    continue
                byP.setdefault(cfg['P'], []).append(o)
            nit = 0
            for P, cases in byP.items():
                chunks = [cases[i::8] for i in range(8)]
                res = pool.map(alg._tv_validate_job, [(os.path.join(scratch, f'it_{P}_{k}'), P, ch) for k, ch in enumerate(chunks) if ch], chunksize=1)
                bycid = {c['id']: c for c in cases}
                for verdicts, summ, raw in res:
                    rep.states += summ['distinct']
                    rep.transitions += summ['generated']
                    if raw:
                        rep.machinery.append('TraceSdcAlgebra (iteration cases) did not return all verdicts: ' + raw[-300:])
                    for cid, viol in verdicts.items():
                        nit += 1
                        rep.traces += 1
                        nontrivial += 1
                        for clause in viol[:2]:
                            rep.violation('alg.' + clause, dict(kind='iteration', P=P, clause=clause, all=viol, case=bycid[cid]))
            # history of transfers: restriction down three levels repeated after a new initial value arrived on the finest level
            r2cfgs = []
            for k in range(120 if tier == 'quick' else 1500):
                P = rng.choice([3, 5, 5])
                c3 = zp_runs.iteration_config(rng, P)
                if c3['NL'] != 3:
                    continue
                z = lambda: rng.randrange(P)  # noqa
                c3['U'] = [[z() for _ in range(c3['levels'][0]['n'])] for _ in range(c3['levels'][0]['M'])]
                r2cfgs.append((len(r2cfgs) + 1, c3, [z() for _ in range(c3['levels'][0]['n'])]))
            r2out = pool.map(_restrict2_job, r2cfgs, chunksize=4)
            byP2 = {}
            for (cid, c3, u0b), o in zip(r2cfgs, r2out):
                if 'error' in o:
                    rep.problem('repeated restriction failed: ' + o['error'], dict(kind='restrict-twice', cfg=c3), clause='hist.unexpected_library_error')
                    continue
                byP2.setdefault(c3['P'], []).append(o)
            nr2 = 0
            for P, cases in byP2.items():
                chunks = [cases[i::8] for i in range(8)]
                res = pool.map(alg._tv_validate_job, [(os.path.join(scratch, f'r2_{P}_{k}'), P, ch) for k, ch in enumerate(chunks) if ch], chunksize=1)
                bycid = {c['id']: c for c in cases}
                for verdicts, summ, raw in res:
                    rep.states += summ['distinct']
                    rep.transitions += summ['generated']
                    if raw:
                        rep.machinery.append('TraceSdcAlgebra (repeated restriction) did not return all verdicts: ' + raw[-300:])
                    for cid, viol in verdicts.items():
                        nr2 += 1
                        rep.traces += 1
                        for clause in viol[:2]:
                            rep.violation('alg.' + clause, dict(kind='restrict-twice', P=P, clause=clause, all=viol, case=bycid[cid]))
            rep.cov['repeated_restriction_cases'] = nr2
            rep.cov['multilevel_iteration_cases'] = nit
            rep.cov['multilevel_iteration_cases_skipped_singular'] = nskip
            r = noh1.get()
            rep.add_tlc(r, 'MC non-theorem DownUpWithoutH1 (counterexample expected)')
            rep.cov['non_theorem_without_H1_refuted_by_TLC'] = (r.violation == 'DownUpWithoutH1')
            if r.violation != 'DownUpWithoutH1':
                rep.machinery.append('expected TLC to refute the fixed-point clause without hypothesis H1 (vacuity guard)')
            rep.evaluations = rep.traces
            rep.distinct_nontrivial = nontrivial
    finally:
        shutil.rmtree(scratch, ignore_errors=True)
    return rep.finish()


def replay(path):
    from checks.c02 import replay as r
    return r(path)
