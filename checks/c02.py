"""C02 -- one sweep equals one preconditioned Picard iteration of the sweeper's matrices
(generic_implicit, imex_1st_order, explicit; integration, residual, end point).  Exact over Z_p."""
import json
import multiprocessing as mp
import os
import random
import shutil
import tempfile

from lib.evidence import Report
from checks import algebra as alg

SWEEPERS_COVERED = ['generic_implicit (incl. k-dependent preconditioners through updateVariableCoeffs)', 'imex_1st_order', 'explicit', 'multi_implicit', 'RungeKutta base class (stage form, end point) with arbitrary lower-triangular tableaux',
                   'MultiStep base class with arbitrary dyadic coefficients and variable step sizes, AdamsBashforthExplicit1Step, BackwardEuler, AdamsMoultonImplicit1Step (spec/Multistep.tla)']
SWEEPERS_NOT_COVERED = ['imex_1st_order_mass', 'verlet', 'boris_2nd_order', 'RungeKuttaIMEX', 'the shipped float tableaux', 'Runge_Kutta_Nystrom',
                        'AdamsMoultonImplicit2Step coefficient table (non-dyadic; its update code is the covered base class) and starting values', 'ParaDiagSweepers', 'DAE project sweepers', '*_MPI flavours (see C08)']


def run(tier, seed):
    rep = Report('C02', tier, seed)
    rep.assumptions = [
        'identities are polynomial identities over commutative rings; they are decided exactly over Z_3 (exhaustively) and '
        'Z_5 / Z_7 (sampled); conditioning / rounding in floating point is not addressed',
        'float scalars (dt*Q[m,j] ...) enter Z_p through the ring homomorphism Z[1/2] -> Z_p; all coefficients are small '
        'integers or dyadic so that the float products pySDC forms are exact',
        'sweepers covered: ' + ', '.join(SWEEPERS_COVERED) + '; NOT covered: ' + ', '.join(SWEEPERS_NOT_COVERED),
        'quadrature / preconditioner matrices are arbitrary (not only the ones qmat ships); they reach the sweepers through '
        "pySDC's own CollBase / get_Qdelta_* plumbing via registered generators"]
    rep.rule = ('cases = instances (sweeper kind, node count, unknowns, dt, Q, QDelta_I, QDelta_E, weights, operators, u0, node values, '
                'tau, end-point mode); non-trivial = sweep defined (nodal systems non-singular) and node values not all equal to u0')
    rng = random.Random(seed)
    scratch = tempfile.mkdtemp(prefix='verif_c02_')
    try:
        with mp.Pool(16) as pool:
            # ---- exhaustive model checking over Z_3 ----
            mcs = []
            if tier == 'quick':
                mcs.append(('impl M<=2 n=1 all Q/QD/u0/U, no tau', alg.consts(3, 'sweep', ['impl'], [1, 2], [1], [1, 2], False, False, False, taus=['none'])))
                mcs.append(('expl+imex M=1 n=1 all', alg.consts(3, 'sweep', ['expl', 'imex'], [1], [1], [1, 2], False, False, True, rncu=['TF', 'TT', 'FT'], wany=True)))
                mcs.append(('impl M=1 n=2 all A/Q/QD/u0/U, no tau', alg.consts(3, 'sweep', ['impl'], [1], [2], [1, 2], False, False, False, taus=['none'])))
            else:
                mcs.append(('impl M<=2 n=1 all incl tau', alg.consts(3, 'sweep', ['impl'], [1, 2], [1], [1, 2], False, False, False)))
                mcs.append(('expl M<=2 n=1 all incl tau', alg.consts(3, 'sweep', ['expl'], [1, 2], [1], [1], False, False, True, taus=['none'])))
                mcs.append(('imex M=1 n=1 all, M=2 dt=1 no tau', alg.consts(3, 'sweep', ['imex'], [1], [1], [1, 2], False, False, True, rncu=['TF', 'TT', 'FT'], wany=True)))
                mcs.append(('impl M=1 n=2 all', alg.consts(3, 'sweep', ['impl'], [1], [2], [1, 2], False, False, False, rncu=['TF', 'TT', 'FT'], wany=True)))
            mc_async = [(lab, alg.submit(pool, os.path.join(scratch, f'mc{i}'), c, alg.SWEEP_INVS, workers=4 if tier == 'quick' else 8, timeout=3000))
                        for i, (lab, c) in enumerate(mcs)]
            # ---- GEN: TLC samples instances + results; replay on the real sweepers ----
            gens = []
            for gi, (P, num) in enumerate([(3, 120 if tier == 'quick' else 1500), (5, 120 if tier == 'quick' else 1500)]):
                c = alg.consts(P, 'sweep', ['impl', 'imex', 'expl'], [1, 2, 3], [1, 2], [1, 2] if P == 3 else [1, 2, 3], True, True, True,
                               rncu=['TF', 'TT', 'FT'], wany=True)
                gens.append((P, alg.submit(pool, os.path.join(scratch, f'gen{gi}'), c, ['Export'], workers=4, simulate=num, seed=seed + gi, timeout=3000)))
            # ---- TV: random instances through the real code, validated by TLC ----
            tv_results = []
            for P, n_inst in ((5, 600 if tier == 'quick' else 6000), (7, 300 if tier == 'quick' else 3000)):
                insts = []
                for k in range(n_inst):
                    inst = alg.random_instance(rng, P, 'sweep', ['impl', 'imex', 'expl', 'rk', 'multi'])
                    if k % 5 == 0:
                        alg.make_fixed_point(inst, P, rng)  # exercise the fixed-point clauses non-vacuously
                    insts.append(inst)
                tv_results.append((P, alg.trace_validate(pool, scratch, P, insts, f'p{P}')))
            nontrivial = 0
            for P, (cases, verdicts, summaries, problems) in tv_results:
                for pr in problems:
                    rep.problem(pr, dict(P=P), clause='alg.unexpected_library_error')
                for s in summaries:
                    rep.states += s['distinct']
                    rep.transitions += s['generated']
                for c in cases:
                    v = verdicts.get(c['id'])
                    if v is None:
                        continue
                    rep.traces += 1
                    if c['out'].get('defined') and any(u != c['inst']['u0'] for u in c['inst']['U']):
                        nontrivial += 1
                    for clause in v[:1]:
                        rep.violation('alg.' + clause, dict(kind='algebra', P=P, clause=clause, all=v, case=c))
                if cases:
                    rep.samples.append(dict(P=P, case=cases[0]))
            for P, fut in gens:
                res = fut.get()
                rep.add_tlc(res, f'GEN SdcAlgebraMC sweep P={P} (simulation)')
                ex = alg.exported(res)
                if not ex:
                    rep.machinery.append(f'no instance exported for P={P}: {res.raw[-300:]}')
                out = pool.map(alg._replay_job, [(v, P) for v in ex], chunksize=8)
                for v, (diffs, real) in zip(ex, out):
                    rep.traces += 1
                    if v['defined']:
                        nontrivial += 1
                    for d in diffs[:1]:
                        if d.startswith('harness exception'):
                            rep.problem(d, dict(P=P, model=v), clause='replay.unexpected_library_error')
                        else:
                            rep.violation('replay.' + d, dict(kind='algebra-replay', P=P, diffs=diffs, model=v, real=real))
                rep.cov.setdefault('gen', []).append(dict(P=P, instances=len(ex)))
            for lab, fut in mc_async:
                res = fut.get()
                rep.add_tlc(res, 'MC ' + lab)
                if res.violation:
                    rep.violation('model.' + res.violation, dict(kind='model', label=lab, tlc_error=res.error_text[:4000]))
                elif not res.ok:
                    rep.machinery.append(f'MC {lab} did not complete: {res.raw[-300:]}')
            nontrivial += multistep_stage(rep, pool, tier, seed, scratch)
            rep.evaluations = rep.traces
            rep.distinct_nontrivial = nontrivial
    finally:
        shutil.rmtree(scratch, ignore_errors=True)
    return rep.finish()


def _ms_record(args):
    from harness import multistep
    return multistep.record(*args)


def multistep_stage(rep, pool, tier, seed, scratch):
    """linear multistep sweepers with variable step sizes: spec/Multistep.tla (model check + validation of recorded runs)"""
    import re
    from lib import tlc
    from lib.errors import describe, is_library
    nontrivial = 0
    d = os.path.join(scratch, 'ms')
    os.makedirs(d, exist_ok=True)
    # design properties of the specification itself
    cfg = os.path.join(d, 'mc.cfg')
    tlc.write_cfg(cfg, spec='Spec', constants=dict(P=3 if tier == 'quick' else 5, MODE='"MC"', MAXSTEPS=2, DTQS='{1, 2, 4}'),
                  invariants=['TimesIncreasing', 'CacheShape'], properties=['ConstantPreserved', 'ShiftOnly', 'WidthsOfCachedSteps'],
                  check_deadlock=False)
    mc = pool.apply_async(tlc.run_tlc, ('Multistep', cfg), dict(workers=4, timeout=1500))
    # recorded runs of the real classes
    for P, count in ((5, 300 if tier == 'quick' else 3000), (7, 300 if tier == 'quick' else 3000)):
        try:
            cases, recs = pool.apply(_ms_record, ((seed + P, P, count),))
        except Exception as e:  # noqa: BLE001
            text = describe(e)
            if is_library(text):
                rep.problem('multistep run raised ' + text, dict(kind='multistep', P=P, seed=seed + P, count=count), clause='ms.unexpected_library_error')
            else:
                rep.machinery.append('multistep harness: ' + text)
            continue
        trace = os.path.join(d, f'tr{P}.json')
        json.dump(recs, open(trace, 'w'))
        cfg = os.path.join(d, f'tv{P}.cfg')
        tlc.write_cfg(cfg, spec='Spec', constants=dict(P=P, MODE='"TV"', MAXSTEPS=0, DTQS='{}'),
                      invariants=['Conforms', 'TimesIncreasing', 'CacheShape'], check_deadlock=False)
        res = tlc.run_tlc('Multistep', cfg, workers=4, timeout=1500, env_extra=dict(MS_TRACE=trace))
        rep.add_tlc(res, f'TV Multistep P={P} ({count} recorded runs, {sum(len(r["steps"]) for r in recs)} updates)')
        rep.traces += count
        nontrivial += sum(1 for r in recs if any(not s['singular'] for s in r['steps']) and r['a'] != 0)
        if res.violation:
            m = re.search(r'/\\ c = (\d+)', res.error_text or '')
            k = re.findall(r'/\\ k = (\d+)', res.error_text or '')
            cid = int(m.group(1)) if m else None
            rep.violation('ms.' + res.violation, dict(kind='multistep', P=P, clause=res.violation, case=cases[cid - 1] if cid else None,
                                                      record=recs[cid - 1] if cid else None, update=int(k[-1]) if k else None,
                                                      tlc_error=(res.error_text or '')[:3000]))
        elif not res.ok:
            rep.machinery.append(f'TV Multistep P={P} did not complete: {res.raw[-300:]}')
        elif res.distinct != count + sum(len(r['steps']) for r in recs):
            rep.machinery.append(f'TV Multistep P={P}: {res.distinct} states for {count} runs -- trace not consumed completely')
        rep.cov.setdefault('multistep', []).append(dict(P=P, runs=count, updates=sum(len(r['steps']) for r in recs),
                                                        singular=sum(1 for r in recs for s in r['steps'] if s['singular']),
                                                        classes=sorted({c['cls'] for c in cases})))
        if recs:
            rep.samples.append(dict(P=P, multistep=recs[0]))
    res = mc.get()
    rep.add_tlc(res, 'MC Multistep (all caches / step-size sequences within bounds)')
    if res.violation:
        rep.violation('ms.model.' + res.violation, dict(kind='model', label='Multistep', tlc_error=(res.error_text or '')[:3000]))
    elif not res.ok:
        rep.machinery.append(f'MC Multistep did not complete: {res.raw[-300:]}')
    return nontrivial


def replay(path):
    d = json.load(open(path))
    from harness import zp_cases
    if d.get('kind') == 'multistep':
        from harness import multistep
        now = multistep.run_case(d['case'], d['P']) if d.get('case') else None
        print(json.dumps(dict(clause=d['clause'], recorded=d.get('record'), now=now, update=d.get('update')), indent=1)[:3000])
        return 1
    if d.get('kind') == 'algebra':
        c = d['case']
        out = zp_cases.run_transfer_case(c['inst'], d['P']) if 'G' in c['inst'] else zp_cases.run_sweep_case(c['inst'], d['P'])
        print(json.dumps(dict(recorded=c['out'], now=out, clause=d['clause']), indent=1)[:3000])
        return 1
    print(json.dumps(d, indent=1)[:3000])
    return 1
