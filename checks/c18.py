"""C18 (assembly clauses) -- the assembled finite-difference matrix applies exactly the stencil weights at the
index positions the property prescribes (interior rows, periodic wrap-around, shifted Dirichlet boundary rows,
Kronecker sums in 2-D/3-D).  The accuracy of the WEIGHTS themselves (polynomial exactness, Neumann closures) is
numeric and not decided here."""
import json
import multiprocessing as mp
import os
import random
import shutil
import tempfile

import numpy as np

from lib import tlc
from lib.evidence import Report

LOOP = 'indices'  # how the periodic loop of the code under test walks the stencil; the specification mirrors it


def fd_run(wd, maxoff, minlen, maxlen, maxn, bcs, export, loop=None):
    os.makedirs(wd, exist_ok=True)
    cfg = os.path.join(wd, 'FD.cfg')
    tlc.write_cfg(cfg, spec='Spec', constants=dict(MAXOFF=str(maxoff), MINLEN=str(minlen), MAXLEN=str(maxlen), MAXN=str(maxn),
                                                   LOOP=f'"{loop or LOOP}"', EXPORT='TRUE' if export else 'FALSE',
                                                   BCS='{' + ','.join(f'"{b}"' for b in bcs) + '}'),
                  invariants=['PeriodicOK', 'DirichletOK', 'RowComplete', 'Export'], check_deadlock=False)
    return tlc.run_tlc('FDMatrix', cfg, workers=4, timeout=1800, heap='6g')


def _cmp(rows):
    """the real matrix must hold, at every (row, col), the sum of the real weights the model places there"""
    from pySDC.helpers.problem_helper import get_finite_difference_matrix, get_finite_difference_stencil
    bad = []
    n = 0
    for r in rows:
        offs, N, bc, W = list(r['offs']), r['N'], r['bc'], r['W']
        for deriv in ([1, 2] if len(offs) >= 3 else [1]):
            if bc == 'dirichlet' and deriv >= W:
                continue
            n += 1
            order = W - deriv
            dx = 0.5
            # the model speaks about a SET of offsets: the order in which a user lists them must not matter
            k = (N + len(offs) + deriv) % 3
            given = list(offs) if k == 0 else list(reversed(offs)) if k == 1 else list(offs[1:]) + list(offs[:1])
            try:
                A, b = get_finite_difference_matrix(derivative=deriv, order=order if bc == 'dirichlet' else None, steps=np.array(given),
                                                    dx=dx, size=N, dim=1, bc='periodic' if bc == 'periodic' else 'dirichlet-zero',
                                                    bc_params=None if bc == 'periodic' else {'val': 3.0})
            except Exception as e:  # noqa
                bad.append(dict(case=[offs, N, bc, W, deriv], why=f'{type(e).__name__}: {e}'))
                continue
            A = np.asarray(A.todense()) * dx ** deriv
            b = np.asarray(b) * dx ** deriv
            w, st = get_finite_difference_stencil(derivative=deriv, steps=np.array(offs))
            w2, st2 = get_finite_difference_stencil(derivative=deriv, steps=np.array(given))
            if list(st2) != list(st) or not np.allclose(w2, w, rtol=1e-12, atol=1e-14):
                bad.append(dict(case=[offs, N, bc, W, deriv], why=f'stencil for the offsets listed as {given} differs from the one for {list(offs)}'))
            exp = np.zeros((N, N))
            expb = np.zeros(N)
            cache = {}

            def bw(side, i):
                key = (side, i)
                if key not in cache:
                    bs = np.arange(-(i + 1), W - (i + 1)) if side == 'l' else np.arange(-W + (i + 2), (i + 2))
                    cache[key] = get_finite_difference_stencil(derivative=deriv, steps=bs)[0]
                return cache[key]

            for (row, col, what, _) in r['A']:
                if isinstance(what, int):
                    exp[row, col] += w[what - 1]
                elif what[0] == 'w':
                    exp[row, col] += w[what[1] - 1]
                else:
                    exp[row, col] += bw(what[0], what[1])[what[2] - 1]
            for (row, what) in r['b']:
                expb[row] += 3.0 * bw(what[0], what[1])[what[2] - 1]
            tol = 1e-12 * max(1.0, np.abs(exp).max())
            if not (np.abs(A - exp).max() <= tol):
                i, j = np.unravel_index(np.argmax(np.abs(A - exp)), A.shape)
                bad.append(dict(case=[offs, N, bc, W, deriv], why=f'entry ({i},{j}): matrix {A[i, j]!r} != placed weights {exp[i, j]!r}'))
            elif not (np.abs(b - expb).max() <= 1e-12 * max(1.0, np.abs(expb).max())):
                bad.append(dict(case=[offs, N, bc, W, deriv], why='boundary vector differs'))
            # Kronecker-sum index law in 2-D and 3-D (two outputs of the code)
            if N <= 5 and bc == 'periodic':
                for dim in (2, 3):
                    Ad, _ = get_finite_difference_matrix(derivative=deriv, order=None, steps=np.array(offs), dx=dx, size=N,
                                                          dim=dim, bc='periodic')
                    Ad = np.asarray(Ad.todense()) * dx ** deriv
                    eye = np.eye(N)
                    if dim == 2:
                        K = np.kron(exp, eye) + np.kron(eye, exp)
                    else:
                        K = np.kron(exp, np.eye(N * N)) + np.kron(np.eye(N * N), exp) + np.kron(np.kron(eye, exp), eye)
                    if not (np.abs(Ad - K).max() <= 1e-12 * max(1.0, np.abs(K).max())):
                        bad.append(dict(case=[offs, N, bc, W, deriv, dim], why=f'{dim}-D matrix is not the Kronecker sum'))
    return bad, n


def run(tier, seed):
    rep = Report('C18', tier, seed)
    rep.assumptions = ['restricted to the assembly clauses of C18 (index placement); stencil weights are taken from the '
                       'real get_finite_difference_stencil, so no numerical oracle is involved',
                       'comparison of two outputs of the code up to 1e-12 relative',
                       'grid at least as large as the stencil span measured from the point it is applied at; Dirichlet '
                       'rows with the default (shifted-stencil) treatment; Neumann / reduced closures are not modelled']
    rep.rule = ('cases = (offset set, grid size, boundary type, boundary stencil width, derivative) enumerated by TLC; '
                'non-trivial = offset set that is not a contiguous range containing 0 (user-supplied layout)')
    scratch = tempfile.mkdtemp(prefix='verif_c18_')
    try:
        with mp.Pool(16) as pool:
            if tier == 'quick':
                jobs = [(os.path.join(scratch, 'p'), 3, 2, 4, 8, ['periodic'], True),
                        (os.path.join(scratch, 'd'), 2, 2, 4, 7, ['dirichlet'], True)]
            else:
                jobs = [(os.path.join(scratch, 'p'), 4, 2, 6, 9, ['periodic'], True),
                        (os.path.join(scratch, 'd'), 3, 2, 5, 9, ['dirichlet'], True)]
            results = pool.starmap(fd_run, jobs, chunksize=1)
            rows = []
            for job, res in zip(jobs, results):
                rep.add_tlc(res, f'MC FDMatrix {job[5]} maxoff={job[1]} len={job[2]}..{job[3]} N<={job[4]} loop={LOOP}')
                if res.violation:
                    rep.violation('model.' + res.violation, dict(kind='model', module='FDMatrix', loop=LOOP, tlc_error=res.error_text[:3000]))
                elif not res.ok:
                    rep.machinery.append(f'FDMatrix MC did not complete: {res.raw[-300:]}')
                rows += [v for v in res.prints if isinstance(v, dict) and v.get('fd')]
            nontrivial = sum(1 for r in rows if list(r['offs']) != list(range(r['offs'][0], r['offs'][-1] + 1)) or not (r['offs'][0] <= 0 <= r['offs'][-1]))
            chunks = [rows[i::64] for i in range(64)]
            total = 0
            for bad, n in pool.map(_cmp, chunks, chunksize=1):
                total += n
                for b in bad[:2]:
                    rep.violation('fd.placement', dict(kind='fd', **b))
            rep.traces = total
            rep.evaluations = total
            rep.distinct_nontrivial = nontrivial
            if rows:
                rep.samples.append({k: rows[len(rows) // 3][k] for k in ('offs', 'N', 'bc', 'W')})
            if total == 0:
                rep.machinery.append('no case exported')
    finally:
        shutil.rmtree(scratch, ignore_errors=True)
    return rep.finish()


def replay(path):
    d = json.load(open(path))
    print(json.dumps(d, indent=1)[:2000])
    return 1
