"""C13 -- data types have value semantics; runs never corrupt caller or logged data.
  (1) ValueSemantics.tla: heap/alias contract; TLC enumerates programs, the real classes execute them
  (2) run-level clause: recorded runs of the real controller (every sweeper x configuration the serial engine builds)
      validated by TLC (TracePfasstSerial clauses val.u0_copied / val.caller_u0_unchanged / val.logged_unchanged)"""
import json
import multiprocessing as mp
import os
import random
import shutil
import tempfile

from lib import tlc
from lib.evidence import Report
from checks.serial_check import scenario, run_property

ALL_OPS = ['copy', 'copyto', 'alias', 'bin', 'scale', 'aug', 'augscalar', 'ufunc', 'out', 'setall', 'setitem', 'comp', 'stride', 'abs']


PAR_OPS = ['copy', 'alias', 'bin', 'scale', 'aug', 'setpar']  # the parameter-array model (particles: charge and mass)


def vs_run(wd, maxlen, simulate=None, seed=0, haspar=False):
    os.makedirs(wd, exist_ok=True)
    cfg = os.path.join(wd, 'VS.cfg')
    ops = PAR_OPS if haspar else ALL_OPS
    tlc.write_cfg(cfg, spec='Spec', constants=dict(N='4', MAXLEN=str(maxlen), OPS='{' + ','.join(f'"{o}"' for o in ops) + '}',
                                                   HASPAR='TRUE' if haspar else 'FALSE'),
                  invariants=['TypeOK', 'ViewShares', 'Export'], properties=['NoOperandMutation', 'NoSpookyAction', 'CopyIndependent'],
                  check_deadlock=False)
    return tlc.run_tlc('ValueSemantics', cfg, workers=8, timeout=1800, heap='8g', simulate=simulate, depth=maxlen + 1 if simulate else None,
                       seed=seed if simulate else None)


def _vs_job(args):
    chunk = args
    from harness import vsem
    fams = vsem.families()
    bad = []
    n = 0
    for p in chunk:
        for fi, fam in enumerate(fams):
            try:
                r = vsem.run_program(p, fam)
            except Exception as e:  # noqa
                from lib.errors import describe, is_library
                # an operation of the data type that raises where the contract defines a result is a finding, not a harness failure
                r = [('raises ' if is_library(describe(e)) else 'harness exception ') + describe(e, 200)]
            if r is None:
                continue
            n += 1
            if r:
                bad.append(dict(prog=p['prog'], family={k: str(v) for k, v in fam.items()}, problems=r[:4]))
    return bad, n


def run_level_scenarios(tier):
    S = []
    real = [dict(problem=p, restol=r) for p in ('test', 'heat', 'imex', 'vdp') for r in (1e-3, 1e-9)]
    S.append(scenario('real_np1', dict(NP=1, MAXITER=5, TEND=12, DT0=4), mc=False, real=real))
    S.append(scenario('real_np3', dict(NP=3, MAXITER=5, TEND=24, DT0=4), mc=False, real=real))
    S.append(scenario('real_np3_gs', dict(NP=3, MAXITER=5, TEND=24, DT0=4, JAC=False), mc=False, real=real))
    S.append(scenario('real_np2_ml2', dict(NP=2, NL=2, NSW=[1, 1], MAXITER=5, PRED='pfasst_burnin', TEND=16, DT0=4), mc=False,
                      real=[r for r in real if r['problem'] != 'vdp']))
    S.append(scenario('real_collupd', dict(NP=2, MAXITER=5, TEND=16, DT0=4, ENDDEP=True), mc=False, real=real))
    rks = ['ForwardEuler', 'BackwardEuler', 'RK4', 'CrankNicolson', 'DIRK43', 'ESDIRK53', 'Cash_Karp', 'IMEXEuler', 'IMEXEulerStifflyAccurate',
           'ARK54', 'ARK548L2SA', 'ARK32']
    S.append(scenario('rk_np1', dict(NP=1, MAXITER=1, TEND=12, DT0=4), mc=False, real=[dict(sweeper=s, restol=-1.0) for s in rks]))
    S.append(scenario('rk_np2', dict(NP=2, MAXITER=1, TEND=16, DT0=4, JAC=False), mc=False, real=[dict(sweeper=s, restol=-1.0) for s in rks]))
    # DAE sweepers (nodes updated in place) with per-iteration logging of the solution
    S.append(scenario('dae_np1', dict(NP=1, MAXITER=4, TEND=8, DT0=4), mc=False,
                      real=[dict(dae=s, restol=r, log_iter=True) for s in ('SemiImplicitDAE', 'FullyImplicitDAE') for r in (1e-3, 1e-12)]))
    S.append(scenario('iterlog_np2', dict(NP=2, MAXITER=4, TEND=16, DT0=4), mc=False,
                      real=[dict(problem=p, restol=1e-9, log_iter=True) for p in ('test', 'heat', 'imex')]))
    # scripted runs with restarts: the value handed to the next block and the logged solutions
    S.append(scenario('rs_np3', dict(NP=3, MAXITER=1, TEND=12, DT0=4, MAXR=1), rs=(False, True), dtm=(0, 1), mc=False,
                      explore=800 if tier == 'quick' else 8000))
    return S


def run(tier, seed):
    # part 2 first (it writes evidence/C13.json through the shared report; we merge part 1 into it afterwards)
    code2 = run_property('C13', run_level_scenarios(tier), tier, seed)
    from lib import evidence as _ev
    ev2 = json.load(open(os.path.join(_ev.OUT, 'evidence', 'C13.json')))
    rep = Report('C13', tier, seed, clear_replays=False)
    rep.assumptions = ev2.get('assumptions', []) + [
        'data-type programs: statements over three names (copy construction, aliasing, binary / unary arithmetic with meshes and '
        'scalars, augmented assignment, numpy function application, out= argument, whole and single item assignment, component '
        'access, strided views, abs; for particles also item assignment into the parameter arrays charge / mass); classes mesh, imex_mesh, comp2_mesh, MeshDAE (float64 / complex128), particles, fields, acceleration',
        'integer-valued data so that float arithmetic is exact']
    rep.rule = ('cases = (program, data-type family) pairs and recorded controller runs; non-trivial program = contains item assignment, '
                'component access, augmented assignment or an out= argument')
    scratch = tempfile.mkdtemp(prefix='verif_c13_')
    try:
        res = vs_run(os.path.join(scratch, 'vs2'), 2)
        rep.add_tlc(res, 'MC ValueSemantics all programs of length 2')
        progs = [v for v in res.prints if isinstance(v, dict) and v.get('vs')]
        res3 = vs_run(os.path.join(scratch, 'vs4'), 4 if tier == 'quick' else 5, simulate=400 if tier == 'quick' else 6000, seed=seed)
        rep.add_tlc(res3, 'GEN ValueSemantics sampled longer programs (simulation)')
        seen = {json.dumps(v['prog']): v for v in res3.prints if isinstance(v, dict) and v.get('vs')}
        progs += list(seen.values())
        # the parameter-array model (particles carry charge and mass next to positions and velocities): all programs of length 3
        resp = vs_run(os.path.join(scratch, 'vsp'), 3, haspar=True)
        rep.add_tlc(resp, 'MC ValueSemantics with parameter arrays (particles), all programs of length 3')
        progs += [v for v in resp.prints if isinstance(v, dict) and v.get('vs')]
        if tier == 'thorough':
            resp5 = vs_run(os.path.join(scratch, 'vsp5'), 5, haspar=True, simulate=3000, seed=seed + 1)
            rep.add_tlc(resp5, 'GEN ValueSemantics with parameter arrays, sampled programs of length 5')
            seenp = {json.dumps(v['prog']): v for v in resp5.prints if isinstance(v, dict) and v.get('vs')}
            progs += list(seenp.values())
        for r in (res, res3, resp):
            if r.violation:
                rep.violation('model.' + r.violation, dict(kind='model', tlc_error=r.error_text[:3000]))
        if not res.ok and not res.violation:
            rep.machinery.append('ValueSemantics MC did not complete: ' + res.raw[-300:])
        with mp.Pool(16) as pool:
            chunks = [progs[i::64] for i in range(64)]
            out = pool.map(_vs_job, [c for c in chunks if c], chunksize=1)
        total = 0
        for bad, n in out:
            total += n
            for b in bad[:2]:
                rep.violation('vs.' + ('sharing' if 'memory' in b['problems'][0] else 'type' if 'type' in b['problems'][0] else 'value'),
                              dict(kind='value-semantics', **b))
        nt = sum(1 for p in progs if any(st[0] in ('setall', 'setitem', 'comp', 'aug', 'augscalar', 'out') for st in p['prog']))
        rep.cov['programs'] = len(progs)
        rep.cov['program_family_executions'] = total
        if progs:
            rep.samples.append(dict(program=progs[len(progs) // 2]['prog'], expected_after_last=progs[len(progs) // 2]['obs'][-1]))
        if total == 0:
            rep.machinery.append('no program executed')
        # merge the run-level part
        rep.states += ev2['coverage'].get('states', 0)
        rep.transitions += ev2['coverage'].get('transitions', 0)
        rep.traces = total + ev2['coverage'].get('traces_validated_against_impl', 0)
        rep.evaluations = rep.traces
        rep.distinct_nontrivial = nt + ev2['coverage'].get('distinct_nontrivial', 0)
        rep.cov['run_level'] = {k: ev2['coverage'].get(k) for k in ('clause_counts', 'trace_actions', 'traces_validated_against_impl', 'tv_batches')}
        rep.samples += ev2['coverage'].get('samples', [])[:1]
        if code2 == 1:
            rep.violation('run_level_summary', dict(kind='see the replay files C13_val_*.json written by the run-level part'))
        elif code2 == 2:
            rep.machinery.append('run-level part reported a machinery problem (see output above)')
    finally:
        shutil.rmtree(scratch, ignore_errors=True)
    return rep.finish()


def replay(path):
    d = json.load(open(path))
    if d.get('kind') == 'value-semantics':
        print(json.dumps(d, indent=1)[:2000])
        return 1
    from checks.serial_replay import replay as r
    return r(path)
