"""C09 -- restarts and step-size control keep their promises for every failure sequence (state-machine clauses)"""
from checks.serial_check import scenario, run_property
from checks.serial_replay import replay  # noqa: F401


def scenarios(tier):
    S = []
    for maxr in (0, 1, 2):
        for crash in (True, False):
            S.append(scenario(f'np2_r{maxr}_c{int(crash)}', dict(NP=2, MAXITER=1, TEND=8, DT0=4, MAXR=maxr, CRASH=crash),
                              rs=(False, True), dtm=(0, 1), explore=500, constraints=['nblk <= 6']))
    for rff in (False, True):
        for ow in (True, False):
            S.append(scenario(f'np3_rff{int(rff)}_ow{int(ow)}', dict(NP=3, MAXITER=1, TEND=12, DT0=4, MAXR=1, RFF=rff, OW=ow),
                              rs=(False, True), dtm=(0, 1), explore=1000, constraints=['nblk <= 5'], mc_workers=6))
    # growth and shrinking of the step size near Tend (overwrite_to_reach_Tend)
    S.append(scenario('np3_grow', dict(NP=3, MAXITER=1, TEND=24, DT0=2, MAXR=1), rs=(False, True), dtm=(0, 1, 4),
                      explore=2000, constraints=['nblk <= 4'], mc_workers=8))
    S.append(scenario('np1_grow', dict(NP=1, MAXITER=1, TEND=16, DT0=2, MAXR=2), rs=(False, True), dtm=(0, 1, 4),
                      explore=800, constraints=['nblk <= 8']))
    S.append(scenario('ml2_np2', dict(NP=2, NL=2, NSW=[1, 1], MAXITER=1, PRED='fine_only', TEND=16, DT0=4, MAXR=1),
                      rs=(False, True), dtm=(0, 1, 4), explore=800, constraints=['nblk <= 4']))
    S.append(scenario('gen_np2', dict(NP=2, MAXITER=1, TEND=8, DT0=4, MAXR=1), rs=(False, True), dtm=(0, 1),
                      constraints=['nblk <= 2'], gen='all', mc=False))
    if tier == 'thorough':
        # (explored on the real code and validated transition by transition; the exhaustive model checks are those of the smaller
        #  configurations above -- these three did not finish / exhausted the memory of the driver with 150 000 traces)
        S.append(scenario('T_np4_grow', dict(NP=4, MAXITER=1, TEND=32, DT0=2, MAXR=1), rs=(False, True), dtm=(0, 1, 4),
                          explore=15000, mc=False))
        S.append(scenario('T_np3_mi2', dict(NP=3, MAXITER=2, TEND=16, DT0=4, MAXR=2), rs=(False, True), dtm=(0, 1, 4),
                          explore=15000, mc=False))
        S.append(scenario('T_np4_rff', dict(NP=4, MAXITER=1, TEND=16, DT0=4, MAXR=2, RFF=True), rs=(False, True), dtm=(0, 1),
                          explore=10000, mc=False))
        S.append(scenario('T_rand_np5', dict(NP=5, MAXITER=3, TEND=80, DT0=4, MAXR=3), rs=(False, True), dtm=(0, 1, 4), mc=False,
                          rand=800))
    return S


def adaptive_cases(tier, rng):
    C = []
    n = 30 if tier == 'quick' else 300
    for k in range(n):
        prob = ['vdp', 'test', 'lorenz', 'vdp'][k % 4]
        c = dict(problem=prob, e_tol=10 ** rng.uniform(-8, -3), dt=rng.choice([0.5, 0.1, 0.02]), tend=rng.choice([0.5, 1.0]),
                 maxiter=rng.choice([2, 3, 4]), max_restarts=rng.choice([1, 2, 10]), crash=rng.random() < 0.5)
        if prob == 'vdp':
            c['mu'] = rng.choice([1.0, 5.0, 30.0])
        r = rng.random()
        if r < 0.3:
            c['dt_slope_min'] = rng.choice([0.1, 0.5])
            c['dt_slope_max'] = rng.choice([2.0, 4.0])
        elif r < 0.6:
            c['dt_min'] = rng.choice([1e-4, 1e-3])
            c['dt_max'] = rng.choice([0.05, 0.2])
        if rng.random() < 0.3:
            c['beta'] = rng.choice([0.8, 0.95])
        C.append(c)
    # scripted error estimates: every sequence of (estimate / tolerance) ratios over the first attempts, for every limiter setting
    import itertools
    R = [0.3, 0.98, 1.02, 1.3, 5.0]
    settings = [{}, dict(dt_slope_min=0.5, dt_slope_max=2.0), dict(dt_rel_min_slope=0.2), dict(dt_rel_min_slope=0.2, dt_slope_min=0.25, dt_slope_max=4.0),
                dict(dt_min=0.03, dt_max=0.15), dict(dt_rel_min_slope=0.5, beta=0.8)]
    scripted = []
    for script in itertools.product(R, repeat=4):
        for st in settings:
            for maxr in (1, 2):
                for crash in (True, False):
                    scripted.append(dict(problem='test', e_tol=1e-5, dt=0.1, tend=0.25, maxiter=2, max_restarts=maxr, crash=crash, script=list(script), **st))
    if tier == 'quick':
        scripted = rng.sample(scripted, 1500)
    # avoid_restarts: a step whose estimate is too large at maxiter may keep iterating if the contraction of the estimates promises
    # convergence soon -- scripted per ITERATION; it must still end below the tolerance or be restarted
    RI = [400.0, 50.0, 20.0, 5.0, 2.0, 1.9, 1.2, 0.9, 0.4]
    avoid = []
    for k in range(400 if tier == 'quick' else 6000):
        n = rng.randint(3, 7)
        seq = sorted((rng.choice(RI) for _ in range(n)), reverse=True) if rng.random() < 0.7 else [rng.choice(RI) for _ in range(n)]
        avoid.append(dict(problem='test', e_tol=1e-5, dt=0.1, tend=0.15, maxiter=rng.choice([2, 3]), max_restarts=rng.choice([1, 2]),
                          crash=rng.random() < 0.5, script=seq, per_iteration=True, avoid_restarts=True))
    # adaptivity for converged collocation problems (polynomial error estimate): restarts for non-convergence (with interpolation of
    # the iterate to the new nodes) and for too large estimates in one run; only the state-machine clauses apply
    poly = []
    for k in range(40 if tier == 'quick' else 400):
        poly.append(dict(problem='vdp', flavour='poly', mu=rng.choice([5.0, 10.0, 30.0]), e_tol=10 ** rng.uniform(-7, -4), dt=rng.choice([0.1, 0.05, 0.2]),
                         tend=rng.choice([0.5, 1.0]), maxiter=rng.choice([3, 4, 5]), max_restarts=12, crash=False))
    for oc in itertools.product(['nc', 5.0, 0.3], repeat=4):
        for dt in (0.1, 0.2):
            poly.append(dict(problem='test', flavour='poly', e_tol=1e-5, dt=dt, tend=3.5 * dt, maxiter=4, max_restarts=12, crash=False, outcomes=list(oc)))
    return C + scripted + avoid + poly


def _adapt_validate(args):
    import json
    import os
    from lib import tlc
    wd, batch = args
    os.makedirs(wd, exist_ok=True)
    tf = os.path.join(wd, 'runs.json')
    json.dump(dict(runs=batch), open(tf, 'w'))
    cfg = os.path.join(wd, 'A.cfg')
    tlc.write_cfg(cfg, spec='Spec', check_deadlock=False)
    res = tlc.run_tlc('AdaptMonitor', cfg, workers=1, timeout=1800, env_extra={'TRACE_FILE': tf})
    verdicts = {v['tid']: v['viol'] for v in res.prints if isinstance(v, dict) and 'tid' in v}
    return verdicts, res.summary(), ('' if len(verdicts) == len(batch) else res.raw[-500:])


def _adapt_job(case):
    from harness import adapt_runs
    try:
        return adapt_runs.run(case)
    except Exception as e:  # noqa
        from lib.errors import describe
        return dict(error=describe(e, 300))


def run(tier, seed):
    import json
    import multiprocessing as mp
    import os
    import random
    import shutil
    import tempfile
    from lib import tlc
    from lib.evidence import Report, load_known
    code1 = run_property('C09', scenarios(tier), tier, seed)
    root = os.path.dirname(os.path.dirname(os.path.abspath(__file__)))
    from lib import evidence as _ev
    ev1 = json.load(open(os.path.join(_ev.OUT, 'evidence', 'C09.json')))
    rep = Report('C09', tier, seed, clear_replays=False)
    rep.assumptions = ev1.get('assumptions', []) + [
        'numeric clauses on real adaptive runs (Adaptivity with embedded error estimate, StepSizeLimiter / StepSizeSlopeLimiter, one step per '
        'block): floats are projected to ranks; "proposal = beta*dt*(tol/err)^(1/order)" and "clipped to the limits" are evaluated by the '
        'recorder from the logged operands with the same floating-point expression the code uses (bit equality), so they test the wiring '
        '(which operands, which order of limiters), not the numerical quality of the estimate']
    rep.rule = ev1['coverage'].get('rule', '') + ' | adaptive part: cases = real adaptive runs (problem, tolerance, limits, budget); non-trivial = at least one rejected step'
    known = load_known()
    rng = random.Random(seed + 17)
    scratch = tempfile.mkdtemp(prefix='verif_c09a_')
    try:
        cases = adaptive_cases(tier, rng)
        with mp.Pool(16) as pool:
            futs = [pool.apply_async(_adapt_job, (c,)) for c in cases]
            outs = []
            for f in futs:
                try:
                    outs.append(f.get(timeout=300))
                except mp.TimeoutError:
                    outs.append(dict(error='adaptive run did not finish within 300 s'))
        runs = []
        for k, (c, o) in enumerate(zip(cases, outs)):
            if 'error' in o:
                rep.problem('adaptive run failed: ' + o['error'], dict(kind='adaptive-run', case=c), clause='adapt.unexpected_library_error')
            else:
                runs.append(dict(tid=k + 1, case=c, exc=o['exc'], att=o['att'], max_restarts=o['max_restarts'], full=o.get('full', True)))
        # validation by TLC, in parallel batches
        nb = 16
        batches = [[{k: v for k, v in r.items() if k != 'case'} for r in runs[i::nb]] for i in range(nb)]
        with mp.Pool(nb) as pool:
            vres = pool.map(_adapt_validate, [(os.path.join(scratch, f'am{i}'), b) for i, b in enumerate(batches) if b], chunksize=1)
        verdicts = {}
        for v, summ, raw in vres:
            verdicts.update(v)
            rep.states += summ['distinct']
            rep.transitions += summ['generated']
            if raw:
                rep.machinery.append('AdaptMonitor did not return all verdicts: ' + raw[-500:])
        byid = {r['tid']: r for r in runs}
        for tid, viol in verdicts.items():
            for clause in viol:
                r = byid[tid]
                rep.violation(clause, dict(kind='adaptive-run', clause=clause, case=r['case'], exc=r['exc'], attempts=r['att'][:12]))
        rep.states += ev1['coverage'].get('states', 0)
        rep.transitions += ev1['coverage'].get('transitions', 0)
        rep.traces = len(verdicts) + ev1['coverage'].get('traces_validated_against_impl', 0)
        rep.evaluations = rep.traces
        rep.distinct_nontrivial = ev1['coverage'].get('distinct_nontrivial', 0) + sum(1 for r in runs if any(a['restart'] for a in r['att']))
        rep.cov['adaptive_runs'] = len(verdicts)
        rep.cov['adaptive_attempts'] = sum(len(r['att']) for r in runs)
        rep.cov['adaptive_rejections'] = sum(sum(1 for a in r['att'] if a['restart']) for r in runs)
        rep.cov['state_machine_part'] = {k: ev1['coverage'].get(k) for k in ('clause_counts', 'trace_actions', 'traces_validated_against_impl', 'tv_batches',
                                                                             'explore', 'gen', 'mc_violations', 'tlc_runs')}
        rep.samples += ev1['coverage'].get('samples', [])[:1]
        if runs:
            rep.samples.append(dict(case=runs[0]['case'], attempts=runs[0]['att'][:4]))
        for fid, n in (ev1.get('known_findings') or {}).items():
            text = next((f['text'] for f in known['findings'] if f['id'] == fid), '')
            rep.known[fid] = (n, text)
        if code1 == 1:
            rep.violation('state_machine_part_summary', dict(kind='see the replay files C09_*.json written by the state-machine part'))
        elif code1 == 2:
            rep.machinery.append('state-machine part reported a machinery problem (see output above)')
    finally:
        shutil.rmtree(scratch, ignore_errors=True)
    return rep.finish()
