"""C09 -- restarts and step-size control keep their promises for every failure sequence (state-machine clauses)"""
from checks.serial_check import scenario, run_property
from checks.serial_replay import replay  # noqa: F401


def scenarios(tier):
    S = []
    for maxr in (0, 1, 2):
        for crash in (True, False):
            S.append(scenario(f'np2_r{maxr}_c{int(crash)}', dict(NP=2, MAXITER=1, TEND=8, DT0=4, MAXR=maxr, CRASH=crash),
                              rs=(False, True), dtm=(0, 1), explore=500, constraints=['nblk <= 6']))
    for rff in (False, True):
        for ow in (True, False):
            S.append(scenario(f'np3_rff{int(rff)}_ow{int(ow)}', dict(NP=3, MAXITER=1, TEND=12, DT0=4, MAXR=1, RFF=rff, OW=ow),
                              rs=(False, True), dtm=(0, 1), explore=1000, constraints=['nblk <= 5'], mc_workers=6))
    # growth and shrinking of the step size near Tend (overwrite_to_reach_Tend)
    S.append(scenario('np3_grow', dict(NP=3, MAXITER=1, TEND=24, DT0=2, MAXR=1), rs=(False, True), dtm=(0, 1, 4),
                      explore=2000, constraints=['nblk <= 4'], mc_workers=8))
    S.append(scenario('np1_grow', dict(NP=1, MAXITER=1, TEND=16, DT0=2, MAXR=2), rs=(False, True), dtm=(0, 1, 4),
                      explore=800, constraints=['nblk <= 8']))
    S.append(scenario('ml2_np2', dict(NP=2, NL=2, NSW=[1, 1], MAXITER=1, PRED='fine_only', TEND=16, DT0=4, MAXR=1),
                      rs=(False, True), dtm=(0, 1, 4), explore=800, constraints=['nblk <= 4']))
    S.append(scenario('gen_np2', dict(NP=2, MAXITER=1, TEND=8, DT0=4, MAXR=1), rs=(False, True), dtm=(0, 1),
                      constraints=['nblk <= 2'], gen='all', mc=False))
    if tier == 'thorough':
        S.append(scenario('T_np4_grow', dict(NP=4, MAXITER=1, TEND=32, DT0=2, MAXR=1), rs=(False, True), dtm=(0, 1, 4),
                          explore=60000, constraints=['nblk <= 3'], mc_workers=12, mc_timeout=3000))
        S.append(scenario('T_np3_mi2', dict(NP=3, MAXITER=2, TEND=16, DT0=4, MAXR=2), rs=(False, True), dtm=(0, 1, 4),
                          explore=60000, constraints=['nblk <= 5'], mc_workers=12, mc_timeout=3000))
        S.append(scenario('T_np4_rff', dict(NP=4, MAXITER=1, TEND=16, DT0=4, MAXR=2, RFF=True), rs=(False, True), dtm=(0, 1),
                          explore=30000, constraints=['nblk <= 5'], mc_workers=12, mc_timeout=3000))
        S.append(scenario('T_rand_np5', dict(NP=5, MAXITER=3, TEND=80, DT0=4, MAXR=3), rs=(False, True), dtm=(0, 1, 4), mc=False,
                          rand=800))
    return S


def run(tier, seed):
    return run_property('C09', scenarios(tier), tier, seed)
