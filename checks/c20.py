"""C20 -- descriptions are interpreted consistently and invalid setups are rejected"""
import json
import multiprocessing as mp
import os
import random
import shutil
import tempfile

from lib import tlc
from lib.evidence import Report

FAULTS = ['predict_key', 'dtype_u', 'dtype_f', 'drop_problem_class', 'drop_sweeper_class', 'drop_sweeper_params',
          'drop_level_params', 'no_space_transfer', 'drop_num_nodes', 'bad_quad_type', 'bad_node_type', 'bad_QI',
          'bad_problem_param', 'set_status_attr', 'set_level_param_attr', 'set_readonly_param', 'bad_initial_guess',
          'bad_residual_type', 'residual_type_max_abs', 'residual_type_fullrel', 'residual_type_abs', 'residual_type_full_abs_rel',
          'initial_guess_Spread', 'QI_lu']


def enumerate_descriptions(wd, maxlen, full):
    os.makedirs(wd, exist_ok=True)
    cfg = os.path.join(wd, 'D.cfg')
    tlc.write_cfg(cfg, spec='Spec', constants=dict(MAXLEN=str(maxlen), FULLSHAPES='TRUE' if full else 'FALSE',
                                                   FAULTS='{' + ','.join(f'"{f}"' for f in FAULTS) + '}'),
                  invariants=['WellDefined', 'LongestList', 'LastRepeats', 'OncePerClass', 'Ascending', 'DistinctOrders', 'Export'],
                  check_deadlock=False)
    return tlc.run_tlc('Description', cfg, workers=4, timeout=1800, heap='6g')


def _job(d):
    from harness import descr
    try:
        real = descr.realise(d)
        return descr.compare(d, real), real
    except Exception as e:  # noqa
        from lib.errors import describe, is_library
        d = describe(e, 300)
        return [('outcome: the library raised an error the interpretation does not predict: ' if is_library(d) else 'harness exception ') + d], None


def run(tier, seed):
    rep = Report('C20', tier, seed)
    rep.assumptions = ['descriptions are materialised with heatNd_unforced / generic_implicit and a harness space transfer; '
                       'list entries carry distinct values so that their distribution to the levels is observable',
                       'a convergence controller pulled in as a dependency is listed after its parent in the description '
                       '(the parameters it ends up with depend on the dictionary order otherwise)',
                       "'unknown predictor' on a single level is accepted by the code with a warning (never used) and modelled so"]
    rep.rule = ('cases = descriptions enumerated by TLC from the grammar (shapes scalar/list of length 1..MAXLEN per entry, '
                'sweeps pattern, quadrature type, predictor, number of steps, single faults, user controllers); '
                'non-trivial = has at least one list-valued entry, a fault or a user controller')
    scratch = tempfile.mkdtemp(prefix='verif_c20_')
    rng = random.Random(seed)
    try:
        res = enumerate_descriptions(os.path.join(scratch, 'd'), 4, tier == 'thorough')
        rep.add_tlc(res, 'MC Description (enumeration of the grammar + properties of the interpretation)')
        if res.violation:
            rep.violation('model.' + res.violation, dict(kind='model', tlc_error=res.error_text[:3000]))
        elif not res.ok:
            rep.machinery.append('Description enumeration did not complete: ' + res.raw[-300:])
        ds = [v for v in res.prints if isinstance(v, dict) and v.get('descr')]
        if tier == 'quick' and len(ds) > 6000:
            special = [d for d in ds if d['fault'] != 'none' or d['ccs']]
            rest = [d for d in ds if d['fault'] == 'none' and not d['ccs']]
            ds = special + rng.sample(rest, 6000 - min(6000, len(special)))
        with mp.Pool(16) as pool:
            out = pool.map(_job, ds, chunksize=16)
        nt = 0
        for d, (probs, real) in zip(ds, out):
            if d['fault'] != 'none' or d['ccs'] or max(d['sh_dt'], d['sh_nsw'], d['sh_nodes'], d['sh_nvars']) > 0:
                nt += 1
            for p in probs[:1]:
                if p.startswith('harness exception'):
                    rep.machinery.append(p)
                else:
                    rep.violation('descr.' + p.split(':')[0].split(' ')[0], dict(kind='description', problem=p, all=probs, description=d, real=real))
        rep.traces = len(ds)
        rep.evaluations = len(ds)
        rep.distinct_nontrivial = nt
        if ds:
            rep.samples.append(ds[len(ds) // 2])
        if not ds:
            rep.machinery.append('no description enumerated')
    finally:
        shutil.rmtree(scratch, ignore_errors=True)
    return rep.finish()


def replay(path):
    d = json.load(open(path))
    from harness import descr
    real = descr.realise(d['description'])
    probs = descr.compare(d['description'], real)
    print('\n'.join(probs) or 'no disagreement reproduced')
    return 1 if probs else 0
