"""Matchers of known findings for the PfasstSerial engine.  A finding is identified by (property, clause) plus a
predicate over the witness (configuration, script, trace line), so that any other violation of the same property is
still reported.  The list itself lives in /verif/known_findings.json and is never written at run time."""


def _entries(known, prop):
    return [f for f in known.get('findings', []) if f['property'] == prop]


def _last_stage_line(run, ln):
    i = ln - 2
    while i >= 0 and run['ev'][i]['k'] != 'st':
        i -= 1
    return run['ev'][i] if i >= 0 else None


def pred_iter0_no_sweep(cfg, run, ln, clause):
    """a step finished by residual at iteration 0, before any sweep"""
    line = run['ev'][ln - 1]
    if line.get('sg') != 'IT_CHECK':
        return False
    for i, p in enumerate(line['running']):
        o = line['orc'][i]
        if line['stage'][p] == 'DONE' and not o['fd'] and line['iter'][p] == 0:
            return True
    return False


def pred_coll_update_same_pass(cfg, run, ln, clause):
    """end value depends on u[0] (do_coll_update / right end not a node), >= 3 steps in the block, and the
    predecessor received a new u[0] in the very pass in which it finished"""
    if not cfg.get('ENDDEP'):
        return False
    st = _last_stage_line(run, ln)
    if st is None:
        return False
    bad = [p for p in range(1, st['nact']) if st['h0'][p][0] != st['he'][p - 1][0]]
    if not bad:
        return clause.startswith('ver.')
    return all(p >= 2 and st['iter'][p - 1] == st['iter'][p - 2] for p in bad)


PREDICATES = {
    'iter0_no_sweep': pred_iter0_no_sweep,
    'coll_update_same_pass': pred_coll_update_same_pass,
}


def match(known, prop, clause, cfg, run, ln):
    for f in _entries(known, prop):
        if clause in f.get('clauses', []):
            pred = PREDICATES.get(f.get('predicate'))
            try:
                if pred is None or pred(cfg, run, ln, clause):
                    return (f['id'], f['text'])
            except Exception:
                continue
    return None


def match_model(known, prop, inv, cfg, script):
    for f in _entries(known, prop):
        if inv in f.get('model_invariants', []):
            cond = f.get('model_cfg', {})
            if all(cfg.get(k) == v for k, v in cond.items()):
                return (f['id'], f['text'])
    return None
