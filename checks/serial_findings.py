"""Matchers of known findings for the PfasstSerial engine.  A finding is identified by (property, clause) plus a
predicate over the witness (configuration, script, trace line), so that any other violation of the same property is
still reported.  The list itself lives in /verif/known_findings.json and is never written at run time."""


def _entries(known, prop):
    return [f for f in known.get('findings', []) if f['property'] == prop]


def _last_stage_line(run, ln):
    i = ln - 2
    while i >= 0 and run['ev'][i]['k'] != 'st':
        i -= 1
    return run['ev'][i] if i >= 0 else None


def pred_iter0_no_sweep(cfg, run, ln, clause):
    """a step finished by residual at iteration 0, before any sweep"""
    line = run['ev'][ln - 1]
    if line.get('sg') != 'IT_CHECK':
        return False
    for i, p in enumerate(line['running']):
        o = line['orc'][i]
        if line['stage'][p] == 'DONE' and not o['fd'] and line['iter'][p] == 0:
            return True
    return False


def pred_coll_update_same_pass(cfg, run, ln, clause):
    """end value depends on u[0] (do_coll_update / right end not a node), >= 3 steps in the block, and the
    predecessor received a new u[0] in the very pass in which it finished"""
    if not cfg.get('ENDDEP'):
        return False
    st = _last_stage_line(run, ln)
    if st is None:
        return False
    bad = [p for p in range(1, st['nact']) if st['h0'][p][0] != st['he'][p - 1][0]]
    if not bad:
        return clause.startswith('ver.')
    return all(p >= 2 and st['iter'][p - 1] == st['iter'][p - 2] for p in bad)


def _post_steps(run):
    out = []
    for ln in run['ev']:
        if ln['k'] == 'st':
            out += ln.get('ps', [])
    return out


def pred_stats_marker_collision(cfg, run, ln, clause):
    """every surplus record returned by filter_stats(recomputed=False) stems from a REJECTED attempt whose key
    (time, num_restarts) was re-used by a later post_step (so its `_recomputed` marker was overwritten / outranked),
    and every missing record of an accepted step is outranked by a rejected attempt at the same time"""
    end = run['ev'][-1]
    if end.get('k') != 'end' or not end.get('has_stats'):
        return False
    ps = _post_steps(run)
    explained_any = False
    for T, got in end['filtered']:
        key = (lambda p: p['t'] + p['dt']) if T in ('u', 'work_rhs', 'k') else (lambda p: p['t'])
        acc = [(i, p) for i, p in enumerate(ps) if not p['rs']]
        rej = [(i, p) for i, p in enumerate(ps) if p['rs']]
        want = sorted(key(p) for _, p in acc)
        have = sorted(t for t, _ in got)
        surplus = list(have)
        for t in want:
            if t in surplus:
                surplus.remove(t)
        missing = list(want)
        for t in have:
            if t in missing:
                missing.remove(t)
        for t in surplus:
            # a rejected attempt keyed at t, and a later post_step touching time t with at least its restart count
            ok = any(key(a) == t and any(j > i and t in (b['t'], b['t'] + b['dt']) and b['riar'] >= a['riar']
                                         for j, b in enumerate(ps))
                     for i, a in rej)
            if not ok:
                return False
            explained_any = True
        for t in missing:
            ok = any(key(b) == t and any(t in (a['t'], a['t'] + a['dt']) and a['riar'] >= b['riar'] for _, a in rej)
                     for _, b in acc)
            if not ok:
                return False
            explained_any = True
    if clause == 'stats.niter':
        return True if explained_any or _dup_times(end) else False
    return explained_any


def _dup_times(end):
    for T, got in end['filtered']:
        ts = [t for t, _ in got]
        if len(ts) != len(set(ts)):
            return True
    return False


def pred_spread_inplace(cfg, run, ln, clause):
    """overwrite_to_reach_Tend, restart at a slot 1 <= r < last of a block of >= 3 steps; steps up to r share one
    step size and the steps after r share another"""
    if not cfg.get('OW'):
        return False
    line = run['ev'][ln - 1]
    st = _last_stage_line(run, ln)
    if line.get('k') != 'rb' or st is None:
        return False
    rs = st['rs']
    if True not in rs:
        return False
    r = rs.index(True)
    n_old = st['nact']
    if not (1 <= r < n_old - 1 and n_old >= 3):
        return False
    d = line['dt'][:n_old]
    return len(set(d[:r + 1])) == 1 and len(set(d[r + 1:])) == 1


def pred_iter_records_niter0(cfg, run, ln, clause):
    """per-iteration records of a REJECTED attempt survive the filter only where the accepted re-do of that step finished at
    iteration 0 (no per-iteration record of its own, so there is nothing with a higher num_restarts to supersede them)"""
    end = run['ev'][-1]
    if end.get('k') != 'end' or not end.get('has_stats'):
        return False
    ps = _post_steps(run)
    acc = {p['t']: p for p in ps if not p['rs']}
    rej_t = {p['t'] for p in ps if p['rs']}
    rej_riar = {}
    for p in ps:
        if p['rs']:
            rej_riar[p['t']] = max(rej_riar.get(p['t'], -1), p['riar'])
    # surviving per-iteration records per start time, after the real filter semantics (latest num_restarts, not at recomputed times)
    recs = [e for e in end['stats'] if e[0] == 'residual_post_iteration']
    mark = [e for e in end['stats'] if e[0] == '_recomputed']
    latest = {}
    for e in mark:
        if e[1] not in latest or e[3] >= latest[e[1]][3]:
            latest[e[1]] = e
    bad_times = {t for t, e in latest.items() if e[6] == 1}
    by_t = {}
    for e in recs:
        by_t.setdefault(e[1], []).append(e)
    ok_any = False
    ok_any = False
    rej_end = {}
    for p in ps:
        if p['rs']:
            rej_end[p['t'] + p['dt']] = max(rej_end.get(p['t'] + p['dt'], -1), p['riar'])
    for t, a in acc.items():
        # an accepted step whose start time carries the END marker of a rejected attempt with a restart count that is not
        # smaller loses all its records (the key-collision family, 'instead of')
        if t in bad_times and a['k'] > 0:
            if not (rej_end.get(t, -1) >= a['riar']):
                return False
            ok_any = True
    for t, es in by_t.items():
        if t in bad_times or t not in acc:
            continue
        mx = max(e[3] for e in es)
        n = sum(1 for e in es if e[3] == mx)
        if n != acc[t]['k']:
            # explained: the accepted re-do has no per-iteration record (niter 0), or it carries a restart count that does not
            # exceed the rejected attempt's (key collision after a step-size change, see C14-recomputed-key-collision)
            if not (t in rej_t and (acc[t]['k'] == 0 or rej_riar.get(t, -1) >= acc[t]['riar'])):
                return False
            ok_any = True
    return ok_any


PREDICATES = {
    'iter_records_niter0': pred_iter_records_niter0,
    'stats_marker_collision': pred_stats_marker_collision,
    'iter0_no_sweep': pred_iter0_no_sweep,
    'coll_update_same_pass': pred_coll_update_same_pass,
}


def match(known, prop, clause, cfg, run, ln):
    for f in _entries(known, prop):
        if clause in f.get('clauses', []):
            pred = PREDICATES.get(f.get('predicate'))
            try:
                if pred is None or pred(cfg, run, ln, clause):
                    return (f['id'], f['text'])
            except Exception:
                continue
    return None


def match_model(known, prop, inv, cfg, script):
    for f in _entries(known, prop):
        if inv in f.get('model_invariants', []):
            cond = f.get('model_cfg', {})
            if all(cfg.get(k) == v for k, v in cond.items()):
                return (f['id'], f['text'])
    return None
