"""C06 -- accepted steps tile [t0,Tend] contiguously and chain their values exactly"""
from checks.serial_check import scenario, run_property
from checks.serial_replay import replay  # noqa: F401

BIG = 64 * 1000  # t0 = 1000.0


def scenarios(tier):
    S = []
    # fixed step size: every (t0, dt, Tend, NP) incl. Tend-t0 not a multiple of dt and blocks longer than the rest
    for np_ in (1, 2, 3, 4):
        for (t0, tend, dt0) in ((0, 10, 4), (BIG, BIG + 7, 2), (0, 4, 4)):
            S.append(scenario(f'fix_np{np_}_{t0}_{tend}_{dt0}', dict(NP=np_, MAXITER=1, T0=t0, TEND=tend, DT0=dt0), view='view',
                              explore=100, mc=(np_ <= 3)))
    S.append(scenario('nothing', dict(NP=2, MAXITER=1, T0=8, TEND=8, DT0=4), view='view', explore=5))
    # restarts and step-size changes at arbitrary positions
    S.append(scenario('rs_np3_half', dict(NP=3, MAXITER=1, TEND=12, DT0=4, MAXR=1), rs=(False, True), dtm=(0, 1), view='view',
                      constraints=['nblk <= 3'], explore=1500, mc_workers=8))
    S.append(scenario('rs_np2_both', dict(NP=2, MAXITER=1, TEND=12, DT0=4, MAXR=1), rs=(False, True), dtm=(0, 1, 4), view='view',
                      constraints=['nblk <= 4'], explore=1500, mc_workers=8))
    S.append(scenario('rs_np3_rff', dict(NP=3, MAXITER=1, TEND=12, DT0=4, MAXR=1, RFF=True, CRASH=False), rs=(False, True),
                      dtm=(0, 1), view='view', constraints=['nblk <= 3'], explore=1000, mc_workers=8))
    # end value depends on u[0] (collocation update): the chain clause; multi-level
    S.append(scenario('collupd_np3', dict(NP=3, MAXITER=2, TEND=12, ENDDEP=True), view='view', explore=1500))
    S.append(scenario('collupd_np3_gs', dict(NP=3, MAXITER=2, TEND=12, ENDDEP=True, JAC=False), view='view', explore=800))
    S.append(scenario('ml2_np3', dict(NP=3, NL=2, NSW=[1, 1], MAXITER=2, PRED='pfasst_burnin', TEND=20), view='view',
                      rs=(False, True), explore=1000, constraints=['nblk <= 2']))
    # TLC-generated behaviours replayed on the code
    S.append(scenario('gen_np2_rs', dict(NP=2, MAXITER=1, TEND=8, DT0=4, MAXR=1), rs=(False, True), dtm=(0, 1), view='view',
                      constraints=['nblk <= 2'], gen='all'))
    # real problems, real residuals
    real = [dict(problem=p, restol=r) for p in ('test', 'heat', 'imex', 'vdp') for r in (1e-3, 1e-9)]
    S.append(scenario('real_np3', dict(NP=3, MAXITER=8, TEND=28, DT0=4), mc=False, real=real))
    S.append(scenario('real_np4_ml2', dict(NP=4, NL=2, NSW=[1, 1], MAXITER=8, PRED='pfasst_burnin', TEND=40, DT0=4), mc=False,
                      real=[r for r in real if r['problem'] != 'vdp']))
    S.append(scenario('real_np3_collupd', dict(NP=3, MAXITER=8, TEND=24, DT0=4, ENDDEP=True), mc=False, real=real))
    if tier == 'thorough':
        for np_ in (5, 6, 8):
            S.append(scenario(f'T_fix_np{np_}', dict(NP=np_, MAXITER=1, T0=BIG, TEND=BIG + 37, DT0=2), view='view', mc=False,
                              explore=400))
        S.append(scenario('T_rs_np4_both', dict(NP=4, MAXITER=1, TEND=16, DT0=4, MAXR=2), rs=(False, True), dtm=(0, 1, 4),
                          view='view', constraints=['nblk <= 4'], explore=40000, mc_workers=12, mc_timeout=2400))
        S.append(scenario('T_rs_np3_mi2', dict(NP=3, MAXITER=2, TEND=16, DT0=4, MAXR=2), rs=(False, True), dtm=(0, 1, 4),
                          view='view', constraints=['nblk <= 4'], explore=40000, mc_workers=12, mc_timeout=2400))
        S.append(scenario('T_rand_np6', dict(NP=6, MAXITER=3, TEND=96, DT0=4, MAXR=3), rs=(False, True), dtm=(0, 1, 4), mc=False,
                          rand=600))
    return S


def run(tier, seed):
    return run_property('C06', scenarios(tier), tier, seed)
