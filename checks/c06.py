"""C06 -- accepted steps tile [t0,Tend] contiguously and chain their values exactly"""
from checks.serial_check import scenario, run_property
from checks.serial_replay import replay  # noqa: F401

BIG = 64 * 1000  # t0 = 1000.0


def scenarios(tier):
    S = []
    # fixed step size: every (t0, dt, Tend, NP) incl. Tend-t0 not a multiple of dt and blocks longer than the rest
    for np_ in (1, 2, 3, 4):
        for (t0, tend, dt0) in ((0, 10, 4), (BIG, BIG + 7, 2), (0, 4, 4)):
            S.append(scenario(f'fix_np{np_}_{t0}_{tend}_{dt0}', dict(NP=np_, MAXITER=1, T0=t0, TEND=tend, DT0=dt0), view='view',
                              explore=100, mc=(np_ <= 3)))
    S.append(scenario('nothing', dict(NP=2, MAXITER=1, T0=8, TEND=8, DT0=4), view='view', explore=5))
    # negative times: the interval ends at a negative Tend / crosses zero
    S.append(scenario('neg_np2', dict(NP=2, MAXITER=1, T0=-24, TEND=-8, DT0=4), view='view', explore=50))
    S.append(scenario('neg_np3_cross', dict(NP=3, MAXITER=1, T0=-10, TEND=7, DT0=4), view='view', explore=50))
    # restarts and step-size changes at arbitrary positions
    S.append(scenario('rs_np3_half', dict(NP=3, MAXITER=1, TEND=12, DT0=4, MAXR=1), rs=(False, True), dtm=(0, 1), view='view',
                      constraints=['nblk <= 3'], explore=1500, mc_workers=8))
    S.append(scenario('rs_np2_both', dict(NP=2, MAXITER=1, TEND=12, DT0=4, MAXR=1), rs=(False, True), dtm=(0, 1, 4), view='view',
                      constraints=['nblk <= 4'], explore=1500, mc_workers=8))
    S.append(scenario('rs_np3_rff', dict(NP=3, MAXITER=1, TEND=12, DT0=4, MAXR=1, RFF=True, CRASH=False), rs=(False, True),
                      dtm=(0, 1), view='view', constraints=['nblk <= 3'], explore=1000, mc_workers=8))
    # end value depends on u[0] (collocation update): the chain clause; multi-level
    S.append(scenario('collupd_np3', dict(NP=3, MAXITER=2, TEND=12, ENDDEP=True), view='view', explore=1500))
    S.append(scenario('collupd_np3_gs', dict(NP=3, MAXITER=2, TEND=12, ENDDEP=True, JAC=False), view='view', explore=800))
    S.append(scenario('ml2_np3', dict(NP=3, NL=2, NSW=[1, 1], MAXITER=2, PRED='pfasst_burnin', TEND=20), view='view',
                      rs=(False, True), explore=1000, constraints=['nblk <= 2']))
    # forced stops and forced continuation at arbitrary (step, iteration) positions: a step that is told to stop still starts from
    # its predecessor's FINAL end value
    S.append(scenario('fd_np3', dict(NP=3, MAXITER=2, TEND=12), fd=(False, True), view='view', explore=1200, mc_workers=8))
    S.append(scenario('fd_np2_gs_collupd', dict(NP=2, MAXITER=3, TEND=8, JAC=False, ENDDEP=True), fd=(False, True), view='view',
                      explore=800, mc=False))
    # a controller object that was used before: its steps hold left-over step sizes (an adaptive run whose last block was shorter
    # than NP); the next run must still tile the time axis
    S.append(scenario('reuse_np4', dict(NP=4, MAXITER=1, T0=40, TEND=64, DT0=4, REUSE=True), rs=(False, True), dtm=(0, 1), view='view',
                      explore=600, mc=False))
    S.append(scenario('reuse_np3', dict(NP=3, MAXITER=2, T0=24, TEND=44, DT0=4, REUSE=True), view='view', explore=300, mc=False))
    # TLC-generated behaviours replayed on the code
    S.append(scenario('gen_np2_rs', dict(NP=2, MAXITER=1, TEND=8, DT0=4, MAXR=1), rs=(False, True), dtm=(0, 1), view='view',
                      constraints=['nblk <= 2'], gen='all'))
    # real problems, real residuals
    real = [dict(problem=p, restol=r) for p in ('test', 'heat', 'imex', 'vdp') for r in (1e-3, 1e-9)]
    S.append(scenario('real_np3', dict(NP=3, MAXITER=8, TEND=28, DT0=4), mc=False, real=real))
    S.append(scenario('real_np4_ml2', dict(NP=4, NL=2, NSW=[1, 1], MAXITER=8, PRED='pfasst_burnin', TEND=40, DT0=4), mc=False,
                      real=[r for r in real if r['problem'] != 'vdp']))
    S.append(scenario('real_np3_collupd', dict(NP=3, MAXITER=8, TEND=24, DT0=4, ENDDEP=True), mc=False, real=real))
    if tier == 'thorough':
        for np_ in (5, 6, 8):
            S.append(scenario(f'T_fix_np{np_}', dict(NP=np_, MAXITER=1, T0=BIG, TEND=BIG + 37, DT0=2), view='view', mc=False,
                              explore=400))
        # (the exhaustive model check of these two configurations does not finish within 40 minutes; they are explored on the
        #  real code and validated transition by transition, the model is checked exhaustively on the smaller configurations)
        S.append(scenario('T_rs_np4_both', dict(NP=4, MAXITER=1, TEND=16, DT0=4, MAXR=2), rs=(False, True), dtm=(0, 1, 4),
                          view='view', explore=20000, mc=False))
        S.append(scenario('T_rs_np3_mi2', dict(NP=3, MAXITER=2, TEND=16, DT0=4, MAXR=2), rs=(False, True), dtm=(0, 1, 4),
                          view='view', explore=20000, mc=False))
        S.append(scenario('T_rand_np6', dict(NP=6, MAXITER=3, TEND=96, DT0=4, MAXR=3), rs=(False, True), dtm=(0, 1, 4), mc=False,
                          rand=600))
    return S


def float_cases(tier):
    C = []
    nps = (1, 2, 3, 4) if tier == 'quick' else (1, 2, 3, 4, 5, 8)
    for t0 in (0.0, 1.0e6, -3.7):
        for dt in (0.1, 0.3, 1.0e-3, 0.7, 1.0 / 3.0, 0.25):
            for k in (1, 3, 10, 100) if tier == 'quick' else (1, 2, 3, 7, 10, 33, 100, 1000):
                for frac in (0.0, 0.5):
                    if k > 100 and frac:
                        continue
                    for NP in nps:
                        if k >= 100 and NP not in (1, 3):
                            continue
                        C.append(dict(t0=t0, dt=dt, tend=t0 + (k + frac) * dt, NP=NP, NL=2 if (NP == 2 and k == 3) else 1))
    # the same bookkeeping in the MPI controller (simulated MPI, one rank per step of a block) ...
    for t0 in (0.0, 1.0e6):
        for dt in (0.1, 0.3, 1.0 / 3.0):
            for k in (1, 3, 10, 100) if tier == 'quick' else (1, 2, 3, 7, 10, 33, 100):
                for frac in (0.0, 0.5):
                    for NP in (2, 3) if tier == 'quick' else (2, 3, 4, 5):
                        if k >= 100 and (NP != 3 or frac):
                            continue
                        C.append(dict(t0=t0, dt=dt, tend=t0 + (k + frac) * dt, NP=NP, NL=1, ctrl='mpi', sched=k + NP))
    # ... and in the ParaDiag controller, which by its documentation always completes its block: only block-aligned end times
    for t0 in (0.0, 1.0e6, -3.7):
        for dt in (0.1, 0.3, 0.25):
            for NP in (2, 3) if tier == 'quick' else (1, 2, 3, 4):
                for nb in (1, 2, 5) if tier == 'quick' else (1, 2, 5, 33):
                    C.append(dict(t0=t0, dt=dt, tend=t0 + nb * NP * dt, NP=NP, NL=1, ctrl='paradiag'))
    return C


def _float_job(case):
    from harness import float_tiling
    try:
        return float_tiling.run(case)
    except Exception as e:  # noqa
        from lib.errors import describe
        return dict(error=describe(e, 300))


def run(tier, seed):
    import json
    import multiprocessing as mp
    import os
    import shutil
    import tempfile
    from lib import tlc
    from lib.evidence import Report, load_known
    code1 = run_property('C06', scenarios(tier), tier, seed)
    root = os.path.dirname(os.path.dirname(os.path.abspath(__file__)))
    from lib import evidence as _ev
    ev1 = json.load(open(os.path.join(_ev.OUT, 'evidence', 'C06.json')))
    rep = Report('C06', tier, seed, clear_replays=False)
    rep.assumptions = ev1.get('assumptions', []) + [
        'float part: fixed-step runs with non-dyadic (t0, dt, Tend); times are projected to ranks of the floats that occur (exact '
        'comparisons, no arithmetic on rounded values); the expected step count is computed in exact rational arithmetic from the float '
        'inputs; "up to rounding" = within 1e-9*dt of Tend or within the rounding error the additions of the run can accumulate at the '
        'magnitude of the times (capped at dt/4)',
        'float part covers controller_nonMPI, controller_MPI (simulated MPI, one rank per step of a block) and controller_ParaDiag_nonMPI '
        '(block-aligned end times only: that controller documents that it always completes its block)']
    rep.rule = ev1['coverage'].get('rule', '') + ' | float part: cases = (t0, dt, Tend, steps per block); non-trivial = more than one block'
    known = load_known()
    scratch = tempfile.mkdtemp(prefix='verif_c06f_')
    try:
        # the time bookkeeping of the run loop on the lattice (model checking of Tiling.tla)
        for i, (t0, tend, dt, np_) in enumerate([(0, 10, 4, 3), (5, 12, 2, 4), (0, 4, 4, 2), (3, 30, 3, 4)]):
            cfg = os.path.join(scratch, f'T{i}.cfg')
            tlc.write_cfg(cfg, spec='Spec', constants=dict(T0=str(t0), TEND=str(tend), DT=str(dt), NP=str(np_)), invariants=['TileOK'], check_deadlock=False)
            r = tlc.run_tlc('Tiling', cfg, workers=1, timeout=300)
            rep.add_tlc(r, f'MC Tiling t0={t0} Tend={tend} dt={dt} NP={np_}')
            if r.violation:
                rep.violation('model.' + r.violation, dict(kind='model', module='Tiling', tlc_error=r.error_text[:2000]))
        cases = float_cases(tier)
        with mp.Pool(16) as pool:
            outs = pool.map(_float_job, cases, chunksize=4)
        runs = []
        for k, (c, o) in enumerate(zip(cases, outs)):
            if 'error' in o:
                rep.problem('float run failed: ' + o['error'], dict(case=c), clause='tile.unexpected_library_error')
            elif o['exc'] is None:
                runs.append(dict(tid=k + 1, case=c, short=o.get('short'), **{x: o[x] for x in ('t0', 'tend', 'n_expected', 'init', 'ret', 'steps')}))
        tf = os.path.join(scratch, 'runs.json')
        json.dump(dict(runs=[{k: v for k, v in r.items() if k not in ('case', 'short')} for r in runs]), open(tf, 'w'))
        cfg = os.path.join(scratch, 'TT.cfg')
        tlc.write_cfg(cfg, spec='Spec', check_deadlock=False)
        res = tlc.run_tlc('TraceTiling', cfg, workers=1, timeout=1200, env_extra={'TRACE_FILE': tf})
        verdicts = {v['tid']: v['viol'] for v in res.prints if isinstance(v, dict) and 'tid' in v}
        rep.states += res.distinct
        rep.transitions += res.generated
        if len(verdicts) != len(runs):
            rep.machinery.append('TraceTiling did not return all verdicts: ' + res.raw[-500:])
        byid = {r['tid']: r for r in runs}
        nfl = 0
        for tid, viol in verdicts.items():
            nfl += 1
            r = byid[tid]
            for clause in viol:
                f = next((f for f in known.get('findings', []) if f['property'] == 'C06' and clause in f.get('clauses', [])
                          and f.get('predicate') == 'rounding_extra_step' and rounding_extra_step(r)), None)
                if f:
                    n, t = rep.known.get(f['id'], (0, f['text']))
                    rep.known[f['id']] = (n + 1, f['text'])
                else:
                    rep.violation(clause, dict(kind='float-tiling', clause=clause, case=r['case'], n_steps=len(r['steps']), n_expected=r['n_expected'],
                                               last_steps=r['steps'][-3:]))
        # merge with the lattice part
        rep.states += ev1['coverage'].get('states', 0)
        rep.transitions += ev1['coverage'].get('transitions', 0)
        rep.traces = nfl + ev1['coverage'].get('traces_validated_against_impl', 0)
        rep.evaluations = rep.traces
        rep.distinct_nontrivial = ev1['coverage'].get('distinct_nontrivial', 0) + sum(1 for r in runs if len(r['steps']) > r['case']['NP'])
        rep.cov['float_runs'] = nfl
        rep.cov['lattice_part'] = {k: ev1['coverage'].get(k) for k in ('clause_counts', 'trace_actions', 'traces_validated_against_impl', 'tv_batches',
                                                                       'explore', 'gen', 'mc_violations', 'tlc_runs')}
        rep.samples += ev1['coverage'].get('samples', [])[:1]
        if runs:
            rep.samples.append(dict(case=runs[len(runs) // 2]['case'], steps=runs[len(runs) // 2]['steps'][:4]))
        for fid, n in (ev1.get('known_findings') or {}).items():
            text = next((f['text'] for f in known['findings'] if f['id'] == fid), '')
            rep.known[fid] = (n, text)
        if code1 == 1:
            rep.violation('lattice_part_summary', dict(kind='see the replay files C06_*.json written by the lattice part'))
        elif code1 == 2:
            rep.machinery.append('lattice part reported a machinery problem (see output above)')
    finally:
        shutil.rmtree(scratch, ignore_errors=True)
    return rep.finish()


def rounding_extra_step(r):
    """exactly one step more than expected and the surplus step starts within rounding of Tend"""
    st = r['steps']
    n = r['n_expected']
    # the ParaDiag controller always completes its block: there the surplus is one whole block
    surplus = r['case']['NP'] if r['case'].get('ctrl') == 'paradiag' else 1
    # ... and its start is below Tend by more than 10 eps in floating point although it equals Tend up to rounding: a surplus step
    # that starts AT Tend (or within 10 eps of it) is a different defect
    return len(st) == n + surplus and st[n]['near_tend'] and all(not s['near_tend'] for s in st[:n]) and bool(r.get('short') and r['short'][n])
