"""Engine for the properties decided on SdcAlgebra.tla (C02, C10, single-level clauses of C01):
   MC   exhaustive evaluation of the algebraic properties on all tiny instances over Z_3
   GEN  TLC samples larger instances (Z_3 / Z_5, up to 3 nodes, 2 unknowns) with the model's results; the REAL
        sweepers / BaseTransfer are run on them and compared for equality
   TV   random instances are run through the real code first and validated by TLC (TraceSdcAlgebra)"""
import json
import multiprocessing as mp
import os
import random
import shutil
import tempfile

from lib import tlc


def consts(P, mode, kinds, MS, NS, DTS, rnd, export, withb, h1=True, rncu=('TF',), wany=False, taus=('none', 'any'), exportmod=1):
    def s(xs):
        return '{' + ', '.join(f'"{x}"' if isinstance(x, str) else str(x) for x in xs) + '}'
    return dict(P=str(P), MODE=f'"{mode}"', KINDS=s(kinds), MS=s(MS), NS=s(NS), DTS=s(DTS), RANDOM='TRUE' if rnd else 'FALSE',
                EXPORT='TRUE' if export else 'FALSE', EXPORTMOD=str(exportmod), WITHB='TRUE' if withb else 'FALSE',
                H1='TRUE' if h1 else 'FALSE', RNCU=s(rncu), WANY='TRUE' if wany else 'FALSE', TAUS=s(taus))


SWEEP_INVS = ['SweepOK', 'FixedPointOK', 'EndPointConsistent', 'Export']
TRANSFER_INVS = ['TauOK', 'CoarseDefectOK', 'DownUpOK', 'DownUpFOK', 'Export']


def mc(wd, c, invs, workers=8, timeout=1500, simulate=None, seed=0):
    os.makedirs(wd, exist_ok=True)
    cfg = os.path.join(wd, 'SA.cfg')
    tlc.write_cfg(cfg, spec='Spec', constants=c, invariants=invs, check_deadlock=False)
    return tlc.run_tlc('SdcAlgebraMC', cfg, workers=workers, timeout=timeout, heap='8g', simulate=simulate, depth=4 if simulate else None,
                       seed=seed if simulate else None)


def _mc_job(args):
    return mc(*args[0], **args[1])


def submit(pool, wd, c, invs, **kw):
    return pool.apply_async(_mc_job, (((wd, c, invs), kw),))


def exported(res):
    seen = {}
    for v in res.prints:
        if isinstance(v, dict) and v.get('alg'):
            seen[json.dumps(v['inst'], sort_keys=True)] = v
    return list(seen.values())


def _replay_job(args):
    v, p = args
    from harness import zp_cases
    inst = v['inst']
    try:
        if 'G' in inst:
            out = zp_cases.run_transfer_case(inst, p)
            diffs = []
            if out['restricted'] != {k: _l(v['restricted'][k]) for k in ('u0', 'U', 'tau', 'Uold')}:
                diffs.append('restrict')
            if out['defined'] != v['defined']:
                diffs.append('defined')
            elif v['defined']:
                if out['coarse_swept'] != _l(v['coarse_swept']):
                    diffs.append('coarse_sweep')
                if out['prolonged'] != _l(v['prolonged']):
                    diffs.append('prolong')
            return diffs, out
        out = zp_cases.run_sweep_case(inst, p)
        diffs = []
        if out['defined'] != v['defined']:
            diffs.append('defined')
        elif v['defined'] and out['sweep'] != _l(v['sweep']):
            diffs.append('sweep')
        if out['integrate'] != _l(v['integrate']):
            diffs.append('integrate')
        if out['res'] != _l(v['res']):
            diffs.append('residual')
        if out['uend'] != _l(v['uend']):
            diffs.append('endpoint')
        if not out.get('full_rel_ok', True) or not out.get('last_rel_ok', True):
            diffs.append('residual_rel')
        return diffs, out
    except Exception as e:  # noqa
        from lib.errors import describe
        return ['harness exception ' + describe(e, 300)], None


def _l(x):
    if isinstance(x, (list, tuple)):
        return [_l(y) for y in x]
    return x


def random_instance(rng, P, mode, kinds, maxM=3, maxn=2, h1=True):
    kind = rng.choice(kinds)
    M, n = rng.randint(1, maxM), rng.randint(1, maxn)
    z = lambda: rng.randrange(P)  # noqa
    mat = lambda r, c: [[z() for _ in range(c)] for _ in range(r)]  # noqa
    low = lambda m: [[m[i][j] if j <= i else 0 for j in range(len(m))] for i in range(len(m))]  # noqa
    slow = lambda m: [[m[i][j] if j < i else 0 for j in range(len(m))] for i in range(len(m))]  # noqa
    zero = lambda r, c: [[0] * c for _ in range(r)]  # noqa
    rc = rng.choice(['TF', 'TT', 'FT'])
    # block strictly triangular (nilpotent) or general operators
    A = mat(n, n)
    if kind == 'rk':
        A_ = mat(n, n)
        QI = low(mat(M, M))
        w = QI[M - 1] if rng.random() < 0.4 else [z() for _ in range(M)]
        return dict(kind='rk', M=M, n=n, dt=rng.choice([1, 2, 3][:P - 2] if P > 3 else [1, 2]), rightnode=True, collupdate=False, A=A_,
                    B=zero(n, n), c=0, Q=[list(r) for r in QI], QI=QI, QE=zero(M, M), w=list(w), u0=[z() for _ in range(n)], U=mat(M, n), tau=[],
                    tn=[0] * M, g=[0] * n)
    if kind == 'multi':
        return dict(kind='multi', M=M, n=n, dt=rng.choice([1, 2, 3][:P - 2] if P > 3 else [1, 2]), rightnode=rc in ('TF', 'TT'), collupdate=rc in ('TT', 'FT'),
                    A=mat(n, n), B=mat(n, n), c=0, Q=mat(M, M), QI=low(mat(M, M)), QE=low(mat(M, M)), w=[z() for _ in range(M)],
                    u0=[z() for _ in range(n)], U=mat(M, n), tau=rng.choice([[], mat(M, n)]), tn=[0] * M, g=[0] * n)
    inst = dict(kind=kind, M=M, n=n, dt=rng.choice([1, 2, 3][:P - 2] if P > 3 else [1, 2]), rightnode=rc in ('TF', 'TT'), collupdate=rc in ('TT', 'FT'),
                A=A, B=zero(n, n) if kind == 'impl' else mat(n, n), c=0 if kind == 'impl' else z(),
                Q=mat(M, M), QI=zero(M, M) if kind == 'expl' else low(mat(M, M)), QE=zero(M, M) if kind == 'impl' else slow(mat(M, M)),
                w=[z() for _ in range(M)], u0=[z() for _ in range(n)], U=mat(M, n), tau=rng.choice([[], mat(M, n)]))
    timedep = kind in ('imex', 'expl') and rng.random() < 0.6
    inst['tn'] = [z() for _ in range(M)] if timedep else [0] * M
    inst['g'] = [z() for _ in range(n)] if timedep else [0] * n
    inst['leftnode'] = rng.random() < 0.3
    if mode == 'sweep' and kind == 'impl' and rng.random() < 0.3:
        # k-dependent preconditioner: the sweeper refreshes QI for sweep index k; the model uses the k-th matrix
        inst['QIK'] = [low(mat(M, M)) for _ in range(3)]
        inst['k'] = rng.choice([1, 2])
        inst['QI'] = inst['QIK'][inst['k']]
    if mode == 'transfer':
        Mc, nc = rng.randint(1, M), rng.randint(1, n)
        Rc = mat(Mc, M)
        if h1:
            for row in Rc:
                row[-1] = (1 - sum(row[:-1])) % P
        inst['G'] = dict(kind=kind, M=Mc, n=nc, dt=inst['dt'], rightnode=True, collupdate=False, A=mat(nc, nc), B=zero(nc, nc), c=0,
                         Q=mat(Mc, Mc), QI=zero(Mc, Mc) if kind == 'expl' else low(mat(Mc, Mc)),
                         QE=zero(Mc, Mc) if kind == 'impl' else slow(mat(Mc, Mc)), w=[0] * Mc,
                         tn=[z() for _ in range(Mc)] if timedep else [0] * Mc, g=[z() for _ in range(nc)] if timedep else [0] * nc,
                         leftnode=rng.random() < 0.4)
        if kind != 'impl':
            inst['G']['B'] = mat(nc, nc)
            inst['G']['c'] = z()
        inst['T'] = dict(Rc=Rc, Pc=mat(M, Mc), Rs=mat(nc, n), Ps=mat(n, nc))
        # prolong_f: corrected right-hand sides are interpolated instead of re-evaluated
        inst['finter'] = kind in ('impl', 'imex') and rng.random() < 0.4
    return inst


def make_fixed_point(inst, P, rng):
    """replace U by the solution of the fine collocation problem (brute force over Z_p), if it is unique"""
    import itertools
    M, n = inst['M'], inst['n']
    if P ** (M * n) > 4000:
        return False

    def f(u, m):
        A, B, c = inst['A'], inst['B'], inst['c']
        tn, g = inst.get('tn') or [0] * M, inst.get('g') or [0] * n
        return [(sum(A[i][j] * u[j] for j in range(n)) + sum(B[i][j] * u[j] for j in range(n)) + c * u[i] * u[i] + tn[m] * g[i]) % P for i in range(n)]

    sols = []
    for flat in itertools.product(range(P), repeat=M * n):
        U = [list(flat[m * n:(m + 1) * n]) for m in range(M)]
        F = [f(u, m) for m, u in enumerate(U)]
        ok = True
        for m in range(M):
            for i in range(n):
                v = inst['u0'][i] + sum(inst['dt'] * inst['Q'][m][j] * F[j][i] for j in range(M)) - U[m][i]
                if inst['tau']:
                    v += inst['tau'][m][i]
                if v % P:
                    ok = False
                    break
            if not ok:
                break
        if ok:
            sols.append(U)
    if sols:
        inst['U'] = rng.choice(sols)
        return True
    return False


def _tv_run_job(args):
    cid, inst, p = args
    from harness import zp_cases
    try:
        if 'G' in inst:
            out = zp_cases.run_transfer_case(inst, p)
            mode = 'transfer'
        else:
            out = zp_cases.run_sweep_case(inst, p)
            out['rel_ok'] = bool(out.pop('full_rel_ok', True) and out.pop('last_rel_ok', True)) and out.get('rel_ok', True)
            out.setdefault('uend_after', [])
            out.setdefault('f_fresh', True)
            out.setdefault('u0_kept', True)
            mode = 'sweep'
        return dict(id=cid, mode=mode, inst=inst, out=out)
    except Exception as e:  # noqa
        from lib.errors import describe
        return dict(id=cid, error=describe(e, 300), inst=inst)


def _tv_validate_job(args):
    wd, P, cases = args
    os.makedirs(wd, exist_ok=True)
    tf = os.path.join(wd, 'cases.json')
    with open(tf, 'w') as f:
        json.dump(dict(cases=cases), f)
    cfg = os.path.join(wd, 'T.cfg')
    tlc.write_cfg(cfg, spec='Spec', constants=dict(P=str(P)), check_deadlock=False)
    res = tlc.run_tlc('TraceSdcAlgebra', cfg, workers=1, timeout=1200, env_extra={'TRACE_FILE': tf})
    verdicts = {v['cid']: v['viol'] for v in res.prints if isinstance(v, dict) and 'cid' in v}
    return verdicts, res.summary(), ('' if len(verdicts) == len(cases) else res.raw[-1500:])


def trace_validate(pool, scratch, P, insts, tag):
    jobs = [(i + 1, inst, P) for i, inst in enumerate(insts)]
    cases = pool.map(_tv_run_job, jobs, chunksize=8)
    errs = [c for c in cases if 'error' in c]
    cases = [c for c in cases if 'error' not in c]
    chunks = [cases[i::16] for i in range(16)]
    out = pool.map(_tv_validate_job, [(os.path.join(scratch, f'tv_{tag}_{k}'), P, ch) for k, ch in enumerate(chunks) if ch], chunksize=1)
    verdicts = {}
    summaries, problems = [], [e['error'] for e in errs]
    for v, s, raw in out:
        verdicts.update(v)
        summaries.append(s)
        if raw:
            problems.append('TLC did not return all verdicts: ' + raw[-400:])
    return cases, verdicts, summaries, problems
