import argparse
import importlib
import os
import sys


def main():
    ap = argparse.ArgumentParser()
    ap.add_argument('prop')
    ap.add_argument('--tier', default=os.environ.get('VERIF_TIER', 'quick'))
    ap.add_argument('--replay', default=None)
    a = ap.parse_args()
    seed = int(os.environ.get('VERIF_SEED', '0') or 0)
    mod = importlib.import_module('checks.' + a.prop.lower())
    if a.replay:
        sys.exit(mod.replay(a.replay))
    sys.exit(mod.run(a.tier, seed))


if __name__ == '__main__':
    main()
